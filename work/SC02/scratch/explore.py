import io, sys, warnings, itertools
import numpy as np
warnings.filterwarnings('ignore')
from exetera.core import session, dataframe
from fractions import Fraction

def exact(v):
    if isinstance(v, (bytes, np.bytes_)): return ('b', bytes(v).rstrip(b'\0'))
    if isinstance(v, (float, np.floating)):
        if np.isnan(v): return ('nan',)
        if np.isinf(v): return ('inf', float(v))
        return ('n', Fraction(float(v)))
    return ('n', Fraction(int(v)))

def ref(lk, rk, how):
    rows=[]; mr=set()
    for i,k in enumerate(lk):
        hits=[j for j,k2 in enumerate(rk) if exact(k2)==exact(k) and exact(k)[0]!='nan']
        for j in hits: mr.add(j); rows.append((i,j))
        if not hits and how in ('left','outer'): rows.append((i,None))
    if how in ('right','outer'):
        for j in range(len(rk)):
            if j not in mr: rows.append((None,j))
    if how=='inner': pass
    return sorted(rows, key=repr)

def obs(ddf, nl, nr):
    n=len(ddf['lv'].data) if 'lv' in ddf else 0
    lv=ddf['lv'].data[:]; rv=ddf['rv'].data[:]
    vl = ddf['valid_l'].data[:] if 'valid_l' in ddf else np.ones(n,bool)
    vr = ddf['valid_r'].data[:] if 'valid_r' in ddf else np.ones(n,bool)
    for nm in ('_left_map','_right_map'):
        if nm in ddf:
            m=ddf[nm].data[:]; v=(m!=(1<<62))&(m!=(1<<31)-1)
            if nm=='_left_map': vl=v
            else: vr=v
    rows=[(int(lv[i]) if vl[i] else None, int(rv[i]) if vr[i] else None) for i in range(n)]
    return sorted(rows, key=repr)

def mk(df, name, dt, vals):
    if dt.startswith('S'):
        f=df.create_fixed_string(name, int(dt[1:])); arr=np.array(vals, dtype=dt)
    elif dt=='ts':
        f=df.create_timestamp(name); arr=np.array(vals,dtype='float64')
    else:
        f=df.create_numeric(name, dt); arr=np.array(vals, dtype=dt)
    if len(arr): f.data.write(arr)
    return arr

cnt=[0]
def trial(ds, ldt, lvals, rdt, rvals, hows=('left','right','inner','outer'), hinted=True):
    out=[]
    cnt[0]+=1
    l=ds.create_dataframe('l%d'%cnt[0]); r=ds.create_dataframe('r%d'%cnt[0])
    la=mk(l,'lk',ldt,lvals); ra=mk(r,'rk',rdt,rvals)
    mk(l,'lv','int32',list(range(len(lvals)))); mk(r,'rv','int32',list(range(len(rvals))))
    cfgs=[(h,{}) for h in hows]
    if hinted:
        cfgs+=[(h,dict(hint_left_keys_ordered=True,hint_right_keys_ordered=True)) for h in hows if h!='outer']
    for k,(how,hints) in enumerate(cfgs):
        d=ds.create_dataframe('d%d_%d'%(cnt[0],k))
        try:
            dataframe.merge(l,r,d,'lk','rk',how=how,**hints)
            o=obs(d,len(la),len(ra)); e=ref(list(la),list(ra),how)
            res='ok' if o==e else 'MISMATCH exp=%s obs=%s'%(e,o)
        except Exception as ex:
            res='EXC %s: %s'%(type(ex).__name__, str(ex)[:100])
        out.append((how,'hint' if hints else 'free',res))
    return out

if __name__=='__main__':
    with session.Session() as s:
        ds=s.open_dataset(io.BytesIO(),'w','ds')
        T=[('int32',[1,2,3,5,8],'int64',[1,3,4,(1<<32)+2,(1<<32)+5]),
           ('int64',[1,3,4,(1<<32)+2,(1<<32)+5],'int32',[1,2,3,5,8]),
           ('int8',[-128,-1,0,127],'uint8',[0,127,128,255]),
           ('int64',[-1,0,(1<<53),(1<<53)+1,(1<<63)-1],'uint64',[0,(1<<53)+1,(1<<63)-1,(1<<63),(1<<64)-1]),
           ('int64',[(1<<53),(1<<53)+1,(1<<53)+2],'int64',[(1<<53),(1<<53)+1,(1<<53)+3]),
           ('int64',[(1<<53),(1<<53)+1,(1<<53)+2],'float64',[float(1<<53),float((1<<53)+2)]),
           ('float32',[0.5,1.0,1.5],'float64',[0.5,1.0,1.0+2**-30,1.5]),
           ('float64',[0.0,1.0,float('nan')],'float64',[-0.0,1.0,float('nan')]),
           ('int32',[0,1,2],'float64',[0.0,1.0,1.5,2.0]),
           ('bool',[False,True],'int8',[0,1,2]),
           ('S3',[b'a',b'abc',b'b'],'S5',[b'a',b'abc',b'abcde',b'b']),
           ('S3',[b'a',b'abc',b'b'],'S3',[b'a',b'abc',b'c']),
           ('uint64',[0,(1<<63),(1<<64)-1],'uint64',[1,(1<<63),(1<<64)-1]),
           ('uint32',[0,(1<<31),(1<<32)-1],'int32',[-1,0,(1<<31)-1]),
           ('ts',[0.0,1.5,2.0],'float32',[0.0,1.5,2.0]),
           ('int16',[-32768,-1,0,32767],'int32',[-32768,0,32767,32768,65535]),
           ]
        for t in T:
            print(t)
            for r in trial(ds,*t): print('   ',r)
