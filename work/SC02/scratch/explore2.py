import io, sys, warnings, itertools, random
import numpy as np
warnings.filterwarnings('ignore')
from exetera.core import session, dataframe
from explore import trial, exact
INTS={'int8':(-2**7,2**7-1),'int16':(-2**15,2**15-1),'int32':(-2**31,2**31-1),'int64':(-2**63,2**63-1),
      'uint8':(0,2**8-1),'uint16':(0,2**16-1),'uint32':(0,2**32-1),'uint64':(0,2**64-1),'bool':(0,1)}
def pool(dt):
    if dt in INTS:
        lo,hi=INTS[dt]
        c={lo,lo+1,hi-1,hi,0,1,2}
        for b in (7,8,15,16,24,31,32,53,63):
            for d in (-1,0,1,2):
                for s in (1,-1):
                    v=s*(2**b)+d
                    if lo<=v<=hi: c.add(v)
        return sorted(c)
    if dt=='float32':
        return sorted({float(np.float32(x)) for x in [-2.0**24-2,-1.5,-1,0,0.5,1,1+2**-23,1.5,2,127,128,255,256,2.0**24,2.0**24+2,2.0**31,2.0**32,2.0**53,2.0**63,2.0**64,3e38]})
    if dt=='float64':
        return sorted({-2.0**53-2,-2.0**24-2,-2.0**24-1,-1.5,-1,0,0.5,1,1+2**-52,1+2**-30,1+2**-23,1.5,2,127,128,255,256,2.0**24,2.0**24+1,2.0**24+2,2.0**31,2.0**32,2.0**32+2,2.0**53,2.0**53+2,2.0**63,2.0**64,3e38,1e300})
random.seed(1)
dts=list(INTS)+['float32','float64']
with session.Session() as s:
    ds=s.open_dataset(io.BytesIO(),'w','ds')
    bad={}
    for ldt in dts:
        for rdt in dts:
            pl,pr=pool(ldt),pool(rdt)
            for rep in range(6):
                # choose sorted unique subsets sharing exact values where possible
                common=[v for v in pl if any(exact(v)==exact(w) for w in pr)]
                L=sorted(set(random.sample(pl,min(len(pl),5))+random.sample(common,min(len(common),2))))
                R=sorted(set(random.sample(pr,min(len(pr),5))+random.sample(common,min(len(common),2))))
                for (how,path,res) in trial(ds,ldt,L,rdt,R):
                    if res!='ok':
                        bad.setdefault((ldt,rdt,path),[]).append((how,L,R,res[:200]))
    for k,v in sorted(bad.items()):
        print(k,len(v)); print('    ',v[0])
