import numpy as np, pandas as pd, warnings
warnings.filterwarnings('ignore')
ints=['int8','int16','int32','int64','uint8','uint16','uint32','uint64']
for a in ints:
  for b in ints:
    ia,ib=np.iinfo(a),np.iinfo(b)
    bits=ia.bits
    L=np.array([0,1,2,3],dtype=a)
    cand=[v for v in [(1<<bits),(1<<bits)+1,(1<<bits)+2,-(1<<bits)+3, (1<<(bits-1)), (1<<(bits-1))+1, -1,-2, (1<<31),(1<<32)+1] if ib.min<=v<=ib.max and not (ia.min<=v<=ia.max)]
    if not cand: continue
    R=np.array(cand,dtype=b)
    l=pd.DataFrame({'k':L,'i':np.arange(len(L))}); r=pd.DataFrame({'k2':R,'j':np.arange(len(R))})
    for how in ('inner',):
        m=pd.merge(l,r,left_on='k',right_on='k2',how=how)
        if len(m): print(a,b,'FALSE MATCHES',m[['k','k2']].values.tolist())
        m=pd.merge(r,l,left_on='k2',right_on='k',how=how)
        if len(m): print(b,a,'FALSE MATCHES(swapped)',m[['k','k2']].values.tolist())
