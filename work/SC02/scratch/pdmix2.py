import numpy as np, pandas as pd, warnings
warnings.filterwarnings('ignore')
def t(L,a,R,b,how):
    l=pd.DataFrame({'k':np.array(L,dtype=a),'i':np.arange(len(L))}); r=pd.DataFrame({'k2':np.array(R,dtype=b),'j':np.arange(len(R))})
    m=pd.merge(l,r,left_on='k',right_on='k2',how=how)
    return m[['k','k2']].values.tolist()
L=[0, 1, 127, 255, 258, 65534]; R=[1, 2, 130, 32767, 2147483648, 4294967298, 9223372036854775807]
for how in ('left','right','inner','outer'):
    print(how, t(L,'uint16',R,'int64',how))
print(t([0],'uint16',[2147483648],'int64','left'))
print(t([0],'uint16',[2147483648, 9223372036854775807],'int64','left'))
print(t([0],'uint16',[9223372036854775807],'int64','left'))
print(t([0],'uint16',[9223372036854775807,1],'int64','left'))
print(t([0,5],'uint64',[9223372036854775807,1],'int64','left'))
print(t([0,5],'int32',[9223372036854775807,1],'int64','left'))
print(t([0,5],'uint32',[9223372036854775807,1],'int64','left'))
print(t([0,5],'uint8',[9223372036854775807,1],'int64','left'))
print(t([0,5],'uint8',[9223372036854775807,1],'int64','inner'))
print(t([0,5],'uint8',[1<<62,1],'int64','left'))
print(t([0,5],'uint8',[1<<53,1],'int64','left'))
print(t([0,5],'uint8',[(1<<53)+1,1],'int64','left'))
