import numpy as np, pandas as pd, warnings
warnings.filterwarnings('ignore')
def t(L,a,R,b,how):
    l=pd.DataFrame({'k':np.array(L,dtype=a),'i':np.arange(len(L))}); r=pd.DataFrame({'k2':np.array(R,dtype=b),'j':np.arange(len(R))})
    m=pd.merge(l,r,left_on='k',right_on='k2',how=how)
    return m[['k','k2']].values.tolist()
ints=['int8','int16','int32','int64','uint8','uint16','uint32','uint64']
for a in ints:
  for b in ints:
    ia,ib=np.iinfo(a),np.iinfo(b)
    for v in [1<<7,1<<8,1<<15,1<<16,1<<31,1<<32,1<<63,-1,-(1<<7),-(1<<8),-(1<<15),-(1<<16),-(1<<31),-(1<<32),-(1<<63), (1<<31)+1,(1<<32)+1,(1<<16)+1]:
        if ib.min<=v<=ib.max:
            for L in ([0],[1],[0,1]):
                for R in ([v],[v,v+1] if v+1<=ib.max else [v]):
                    m=t(L,a,R,b,'inner')
                    bad=[p for p in m if int(p[0])!=int(p[1])]
                    if bad: print(a,b,L,R,bad)
