"""dev helper: evaluate a case file with the C02 module and summarise verdicts (python devrun.py cases.json [repo])"""
import sys, os, json, collections
ROOT = '/tmp/vf_SC02'
sys.path.insert(0, ROOT)
if len(sys.argv) > 2:
    os.environ['VERIF_REPO'] = sys.argv[2]
os.environ.setdefault('VERIF_JOBS', '4')
from harness import core
import importlib
mod = importlib.import_module('harness.props.C02')
cases = json.load(open(sys.argv[1]))['cases']
known = [{'id': 'F-C02g', 'status': 'known'}, {'id': 'F-C02i', 'status': 'known'}]
recs, timing = core.evaluate(mod, cases, mod.MODES, 'quick')
print('timing', timing)
c = collections.Counter(); by = collections.defaultdict(list)
for r in recs:
    k, mode = core.judge(mod, r, known)
    c[k] += 1
    if k in ('violation', 'corr'):
        case = r['case']
        key = (k, tuple(mod._pair_dts(case)[0]), 'streamed' if mod.is_ordered(case) else 'pandas')
        by[key].append((r, mode))
print(dict(c))
for key, v in sorted(by.items()):
    r, mode = v[0]
    print(key, len(v), mode)
    print('    case', json.dumps(r['case'])[:600])
    print('    impl', json.dumps(r['impl'].get(mode) if isinstance(mode,str) and mode in r['impl'] else r['impl'])[:400])
    print('    model', json.dumps(r['model'])[:400])
    print('    spec', json.dumps(r['spec'])[:400])
