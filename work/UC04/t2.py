import sys, time, random, os
sys.path.insert(0, '/tmp/vf_UC04')
from harness import core
from harness.props import C04
rng = random.Random(1)
cases = list(C04._gen_callforms(False, rng))
print(len(cases), flush=True)
for c in cases:
    if c.get('via'):
        lk, rk = C04._merge_keys(c)
        assert lk == sorted(lk), c
sub = cases[::15]
t = time.time()
core.run_model(4, [C04.to_val(c) for c in sub], shards=4)
dt = time.time() - t
print(len(sub), 'wall %.1f s' % dt, flush=True)
