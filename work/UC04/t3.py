import sys, time, random, os
sys.path.insert(0, '/tmp/vf_UC04')
from harness import core
from harness.props import C04
rng = random.Random(1)
cases = list(C04._gen_callforms(False, rng))
sub = cases[::15][60:]
for c in sub:
    t = time.time()
    core.run_model(4, [C04.to_val(c)], shards=1)
    dt = time.time() - t
    if dt > 0.3:
        print('%.2f' % dt, c['op'], c['form'], c['proxy'], 'n=%d' % len(c['map']), [len(x) for x in c.get('strs', [])][:8], c.get('kind'), len(c.get('data', [])), flush=True)
print('done')
