import time, io, numpy as np
from exetera.core import session, fields, dataframe, operations as ops
s = session.Session()
strs = ['x'*53, 'no', '', 'y'*3000]
def one():
    src = fields.IndexedStringMemField(s); src.data.write(strs)
    mp = fields.NumericMemField(s, 'int32'); mp.data.write(np.asarray([0, -1, 3], dtype='int32'))
    dst = fields.IndexedStringMemField(s)
    ops.ordered_map_valid_indexed_stream(src, mp, dst)
    return dst.data[:]
one()
t=time.time()
for _ in range(50): one()
print('istream default ms', (time.time()-t)/50*1000)
def two():
    src = fields.NumericMemField(s, 'int64'); src.data.write(np.arange(5))
    mp = fields.NumericMemField(s, 'int32'); mp.data.write(np.asarray([0, -1, 3], dtype='int32'))
    dst = fields.NumericMemField(s, 'int64')
    ops.ordered_map_valid_stream(src, mp, dst)
    return dst.data[:]
two()
t=time.time()
for _ in range(50): two()
print('stream default ms', (time.time()-t)/50*1000)
ds = s.open_dataset(io.BytesIO(), 'w', 'ds')
def three(i):
    left = ds.create_dataframe('l%d'%i); right = ds.create_dataframe('r%d'%i); dest = ds.create_dataframe('d%d'%i)
    left.create_numeric('id', 'int32').data.write(np.asarray([10, 15, 20,20], dtype=np.int32))
    right.create_numeric('id', 'int32').data.write(np.asarray([10, 20, 30, 40], dtype=np.int32))
    right.create_indexed_string('notes').data.write(strs)
    right.create_numeric('v','int64').data.write(np.arange(4))
    dataframe.merge(left, right, dest, 'id', 'id', how='left', hint_left_keys_ordered=True, hint_left_keys_unique=False,
                    hint_right_keys_ordered=True, hint_right_keys_unique=True)
    return dest
d = three(0)
print(list(d.keys()), d['_right_map'].data[:], d['notes'].data[:][1], d['v'].data[:])
t=time.time()
for i in range(1,21): three(i)
print('merge ms', (time.time()-t)/20*1000)
# session path
def four():
    lk = fields.NumericMemField(s, 'int32'); lk.data.write(np.asarray([10, 15, 20, 20], dtype=np.int32))
    rk = fields.NumericMemField(s, 'int32'); rk.data.write(np.asarray([10, 20, 30, 40], dtype=np.int32))
    src = fields.NumericMemField(s, 'int64'); src.data.write(np.arange(4)+100)
    dst = fields.NumericMemField(s, 'int64')
    mp = fields.NumericMemField(s, 'int64')
    s.ordered_merge_left(lk, rk, right_field_sources=(src,), left_field_sinks=(dst,), left_to_right_map=mp, left_unique=False, right_unique=True)
    return mp.data[:], dst.data[:]
print(four())
t=time.time()
for i in range(1,21): four()
print('session ms', (time.time()-t)/20*1000)
