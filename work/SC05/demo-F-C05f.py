import io, os, tempfile, warnings
warnings.simplefilter('ignore')
from exetera.core import session
from exetera.io import parsers
from exetera.io.field_importers import String, Categorical
td = tempfile.mkdtemp()
p = os.path.join(td, 'f.csv')
open(p, 'w').write('id,c\n1,\n2,x\n')
with session.Session() as s:
    dst = s.open_dataset(io.BytesIO(), 'w', 'dst')
    df = dst.create_dataframe('df')
    parsers.read_csv(p, df, schema_dictionary={'id': String(), 'c': Categorical({'': 0}, allow_freetext=True)}, chunk_row_size=100)
    print(list(df['c'].data[:]), list(df['c_freetext'].data[:]))
