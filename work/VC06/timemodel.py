import sys, time, random
sys.path.insert(0, '.')
from harness import core
from harness.props import C06
rng = random.Random(1)
def case(n, cs):
    cells = ['2020-06-15 19:45:39.%06d+00:00' % rng.randrange(10**6) for _ in range(n)]
    return {'k': 'datetime', 'chunks': [cells[i:i+cs] for i in range(0, n, cs)], 'lay': [1, 1, 1]}
for n, cs in [(1000, 1000), (1000, 250), (4000, 250), (4000, 100), (20000, 100), (20000,50)]:
    c = case(n, cs)
    t = time.time(); v = C06.to_val(c); t1 = time.time()
    r = core.run_model(6, [v], shards=1); t2 = time.time()
    mm, ss = C06.from_val(c, r[0]); t3 = time.time()
    print(n, cs, 'to_val %.2f model %.2f from_val %.2f' % (t1 - t, t2 - t1, t3 - t2), str(mm)[:80], mm == ss)
