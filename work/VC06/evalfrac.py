"""dev helper: evaluate only the VC06 fraction families against VERIF_REPO; print failing cases by feature"""
import sys, os, random, collections, time
sys.path.insert(0, '.')
from harness import core
from harness.props import C06
tier = sys.argv[1] if len(sys.argv) > 1 else 'quick'
cases = list(C06._gen_fractions(tier, random.Random(20260930), 0))
t = time.time()
recs, timing = core.evaluate(C06, cases, ['nojit'], tier)
kn = core.load_known()
bad = collections.Counter(); nbad = 0
for r in recs:
    k, _ = core.judge(C06, r, kn)
    if k in ('violation', 'corr'):
        nbad += 1
        c = r['case']
        rows = sum(len(x) for x in c['chunks'])
        feats = [f for f in C06.features(c, r['model']) if f.startswith(('fraction', 'layout', 'kind', 'via', 'rows'))]
        bad[(k, rows >= 100, tuple(feats))] += 1
print('cases', len(cases), 'failing', nbad, timing, '%.0fs' % (time.time() - t))
for k, v in sorted(bad.items(), key=lambda x: -x[1]):
    print(v, k)
