"""dev: every generated case of section H (destination already holds a field): implementation == model in every mode
(needed by C10/C11, which compare with the model only)"""
import sys, random
sys.path.insert(0, '/tmp/vf_VC02')
from harness import core
from harness.props import C02
cases = [c for c in C02._gen_names('quick', random.Random(1)) if c.get('pre')]
recs, t = core.evaluate(C02, cases, ['jit', 'nojit'], 'quick')
bad = [r for r in recs if any(not C02.equal(r['case'], v, r['model'], m) for m, v in r['impl'].items())]
print(len(cases), 'cases;', len(bad), 'with implementation != model')
for r in bad[:5]:
    print(r['case']['how'], r['case']['hints'], r['case']['pre'], r['model'] if isinstance(r['model'], str) else 'list', str(r['impl'])[:200])
