import sys, random, collections
sys.path.insert(0, '/tmp/vf_VC02')
from harness.props import C02
n = collections.Counter()
for c in C02._gen_names(sys.argv[1], random.Random(1)):
    n['chain' if c.get('chain') else 'pre' if c.get('pre') else 'names'] += 1
print(n)
