"""dev: run only the VC02 generators (names / pre / chains) through core.evaluate and judge; print a summary"""
import sys, os, random, collections, json
sys.path.insert(0, '/tmp/vf_VC02')
from harness import core
from harness.props import C02
tier = sys.argv[1]
step = int(sys.argv[2]) if len(sys.argv) > 2 else 1
cases = [c for i, c in enumerate(C02._gen_names(tier, random.Random(1))) if i % step == 0]
print('cases', len(cases), flush=True)
known = [k for k in core.load_known() if k.get('property') == 'C02'] + [
    {'id': 'F-C02j', 'status': 'known'}, {'id': 'F-C02k', 'status': 'known'}]
recs, t = evaluate = core.evaluate(C02, cases, ['jit', 'nojit'], tier)
print(t)
kinds = collections.Counter()
shown = collections.Counter()
for r in recs:
    k, d = core.judge(C02, r, known)
    kinds[k] += 1
    if k in ('violation', 'corr'):
        c = r['case']
        sigk = (k, str(r['model'])[:40], str(list(r['impl'].values())[0])[:40])
        shown[sigk] += 1
        if shown[sigk] <= 2 and sum(1 for _ in shown) < 12:
            print(k, d, json.dumps(r, default=str)[:1800], '\n')
print(kinds)
for k, v in shown.most_common(20):
    print(v, k)
