import io, numpy as np
from exetera.core import session, dataframe
H = dict(hint_left_keys_ordered=True, hint_right_keys_ordered=True)
def mk(ds, name, cols):
    d = ds.create_dataframe(name)
    for n, v in cols:
        d.create_numeric(n, 'int32').data.write(np.array(v, dtype=np.int32))
    return d
def show(d):
    return {k: d[k].data[:].tolist() for k in d.keys()}
with session.Session() as s:
    ds = s.open_dataset(io.BytesIO(), 'w', 'ds')
    i = [0]
    def t(label, L, R, how, lu, ru, pre=(), hinted=True, lf=None, rf=None):
        i[0] += 1
        l = mk(ds, 'l%d' % i[0], L); r = mk(ds, 'r%d' % i[0], R); d = mk(ds, 'd%d' % i[0], pre)
        kw = dict(H, hint_left_keys_unique=lu, hint_right_keys_unique=ru) if hinted else {}
        try:
            dataframe.merge(l, r, d, L[0][0], R[0][0], how=how, left_fields=lf, right_fields=rf, **kw)
            print(label, how, lu, ru, hinted, '->', show(d))
        except Exception as e:
            print(label, how, lu, ru, hinted, '-> EXC', type(e).__name__, e)
    L = [('k', [1, 2, 4]), ('_left_map', [10, 20, 40])]
    R = [('kr', [2, 3, 4]), ('p', [7, 8, 9])]
    for how in ('left', 'right', 'inner'):
        for lu, ru in ((False, False), (True, False), (False, True), (True, True)):
            t('L has _left_map', L, R, how, lu, ru)
    t('L has _left_map', L, R, 'left', None, None, hinted=False)
    L2 = [('k', [1, 2, 4]), ('_right_map', [2, 0, 1])]
    for how in ('left', 'right', 'inner'):
        for lu, ru in ((False, False), (True, False), (False, True), (True, True)):
            t('L has _right_map', L2, R, how, lu, ru)
    L3 = [('k', [1, 2, 4]), ('a', [1, 2, 3])]
    for pre in ([('_left_map', [2, 1, 0])], [('_right_map', [2, 1, 0])], [('_a_map', [0])], [('_b_map', [0])], [('zz', [5])]):
        for how, lu, ru in (('left', False, True), ('right', True, False), ('left', False, False), ('inner', True, True)):
            t('dest pre ' + pre[0][0], L3, R, how, lu, ru, pre=pre)
        t('dest pre ' + pre[0][0], L3, R, 'left', None, None, pre=pre, hinted=False)
    # pandas-path internals
    L4 = [('k', [1, 2, 4]), ('valid_l', [1, 2, 3]), ('l_i', [3, 2, 1]), ('l_k', [9, 9, 9]), ('r_i', [1, 1, 1])]
    R4 = [('kr', [2, 3, 4]), ('valid_r', [7, 8, 9]), ('r_k', [1, 1, 1]), ('r_i', [5, 5, 5])]
    for how in ('left', 'right', 'inner', 'outer'):
        t('pandas internals', L4, R4, how, None, None, hinted=False)
    L5 = [('k', [1, 2, 4]), ('valid', [1, 2, 3])]
    R5 = [('kr', [2, 3, 4]), ('valid', [7, 8, 9])]
    for how in ('left', 'inner', 'outer'):
        t('valid both', L5, R5, how, None, None, hinted=False)
    t('valid both', L5, R5, 'left', False, False)
