"""dev helper: which generated quick cases would expose seeded/C15-r3-1 (pure-python replay of the patched two passes)"""
import sys, random, collections
sys.path.insert(0, '.')
from harness.props import C15

def patched_fails(cols, m):
    md = dict(m)
    if any(k not in cols for k in md): return False
    keys = set(cols) - set(md)
    for v in md.values():
        if v in keys: return False
        keys.add(v)
    group = list(cols); used = set(cols); fr = {}; inter = []
    def move(a, b):
        if a == b: return True
        if b in group: return False
        group[group.index(a)] = b
        return True
    for k in cols:
        if k in md and md[k] != k:
            u = md[k]
            while u in used: u += '_'
            used.add(u); fr[u] = md[k]
            if not move(k, u): return True
            used.discard(k); inter.append(u)
        else:
            inter.append(k)
    for k in inter:
        if k in fr and not move(k, fr[k]): return True
    return False

hits = collections.Counter(); tot = collections.Counter()
for c in C15.gen('quick', random.Random(20260930)):
    cols = {}
    grp = 'A2/F(new)' if ('via' in c or (c.get('init') and len([o for o in c['init'] if o[0] == 'create_df']) == 1 and len(c['ops']) == 1 and c['ops'][0][0] == 'rename' and len(c['ops'][0][3]) >= 3 and not any(o[2] == 'e' for o in c['init']))) else 'old'
    for o in c.get('init', []) + c['ops']:
        if o[0] == 'create_df': cols[(o[1], o[2])] = []
        elif o[0] == 'create' and o[4] < 5 and (o[1], o[2]) in cols and o[3] not in cols[(o[1], o[2])]: cols[(o[1], o[2])].append(o[3])
        elif o[0] == 'rename' and (o[1], o[2]) in cols:
            tot[grp] += 1
            if patched_fails(cols[(o[1], o[2])], o[3]):
                hits[grp] += 1
            break
        elif o in c['ops']:
            break
print(dict(tot), dict(hits))
