# random in-range (non-monotone) maps through ordered_map_valid_stream / _indexed_stream vs. the obvious spec
import io, sys, random
import numpy as np
from exetera.core import session, operations as ops
rng = random.Random(int(sys.argv[1]) if len(sys.argv) > 1 else 1)
N = int(sys.argv[2]) if len(sys.argv) > 2 else 300
s = session.Session(); ds = s.open_dataset(io.BytesIO(), 'w', 'ds')
df = ds.create_dataframe('df')
bad = 0; errs = 0
for it in range(N):
    n = rng.randint(1, 8); ml = rng.randint(0, 12)
    inv = rng.choice([-1, ops.INVALID_INDEX_32, ops.INVALID_INDEX_64])
    m = [inv if rng.random() < 0.25 else rng.randrange(n) for _ in range(ml)]
    cs = rng.randint(1, 5); vf = rng.randint(1, 4)
    strs = [bytes(rng.choice(b'abc') for _ in range(rng.randint(0, cs * vf))) for _ in range(n)]
    nums = [rng.randint(-50, 50) for _ in range(n)]
    mf = df.create_numeric('m%d' % it, 'int64'); mf.data.write(np.array(m, dtype='int64'))
    src = df.create_numeric('s%d' % it, 'int32'); src.data.write(np.array(nums, dtype='int32'))
    dst = df.create_numeric('d%d' % it, 'int32')
    isrc = df.create_indexed_string('is%d' % it); isrc.data.write([x.decode() for x in strs])
    idst = df.create_indexed_string('id%d' % it)
    exp = [0 if k == inv else nums[k] for k in m]
    iexp = ['' if k == inv else strs[k].decode() for k in m]
    try:
        ops.ordered_map_valid_stream(src, mf, dst, inv, cs)
        got = dst.data[:].tolist()
        ops.ordered_map_valid_indexed_stream(isrc, mf, idst, inv, cs, vf)
        igot = idst.data[:]
        if got != exp or list(igot) != iexp:
            bad += 1
            print('MISMATCH', m, cs, vf, nums, strs, got, exp, igot, iexp)
    except Exception as e:
        errs += 1
        print('EXC', type(e).__name__, e, m, cs, vf, strs)
print('cases', N, 'mismatch', bad, 'exceptions', errs)
