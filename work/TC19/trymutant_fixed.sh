#!/bin/bash
# work/TC19/trymutant_fixed.sh <patch.diff> <Cxx> ... — as harness/trymutant.sh, but the scratch worktree of /repo HEAD first
# receives work/TC19/fix-F-C19g.diff (the repair the strengthened check expects), then the seeded change.
# Without a patch argument ("-") only the fix is applied (the "unchanged tree" the check must accept).
HERE="$(cd "$(dirname "$0")/../.." && pwd)"
PATCH="$1"; [ "$PATCH" != "-" ] && PATCH="$(readlink -f "$1")"; shift
WT="/tmp/mt_tc19_$$"
git -C /repo worktree add -q --detach "$WT" HEAD || exit 2
trap 'git -C /repo worktree remove --force "$WT" >/dev/null 2>&1' EXIT
git -C "$WT" apply "$HERE/work/TC19/fix-F-C19g.diff" 2>/dev/null || echo "(fix-F-C19g already in HEAD or does not apply)"
if [ "$PATCH" != "-" ]; then git -C "$WT" apply "$PATCH" || { echo "PATCH DOES NOT APPLY"; exit 2; }; fi
cd "$HERE"
for p in "$@"; do
  s=$(date +%s)
  VERIF_REPO="$WT" ./check $p --tier "${TIER:-quick}" > /tmp/mt_tc19_$$_$p.log 2>&1; rc=$?
  echo "$p rc=$rc $(( $(date +%s) - s ))s :: $(grep -E '^(OK|FAIL|MACHINERY|VIOLATION|KNOWN)' /tmp/mt_tc19_$$_$p.log | tr '\n' '|' | cut -c1-300)"
  cp /tmp/mt_tc19_$$_$p.log "$HERE/work/TC19/last_mutant_$p.log"
done
git -C "$HERE" checkout -- evidence 2>/dev/null
exit 0
