"""debug helper: VERIF_REPO=... python work/C06/dbg.py [kind-filter] — mismatch summary by kind"""
import sys, os, json, random, collections
sys.path.insert(0, os.path.join(os.path.dirname(os.path.abspath(__file__)), '..', '..'))
from harness import core
from harness.props import C06 as mod
flt = sys.argv[1] if len(sys.argv) > 1 else None
tier = sys.argv[2] if len(sys.argv) > 2 else 'quick'
cases = [c for c in mod.gen(tier, random.Random(1)) if flt is None or c['k'] in flt.split(',') or (flt == 'csv' and c.get('via') == 'csv')]
seen=set(); u=[]
for c in cases:
    k=core.case_key(c)
    if k not in seen: seen.add(k); u.append(c)
cases=u
print(len(cases), 'cases')
recs, timing = core.evaluate(mod, cases, mod.MODES, tier)
print(timing)
kn = [{'id':'F-C06b','status':'known'}]
by = collections.defaultdict(list)
for r in recs:
    k, mode = core.judge(mod, r, kn)
    if k != 'ok':
        by[(r['case']['k'], r['case'].get('via','direct'), k)].append((r, mode))
for key, rs in by.items():
    print('==', key, len(rs))
    for r, mode in rs[:int(os.environ.get('N','2'))]:
        print('  ', mode, json.dumps(r['case'])[:300]); print('     impl ', json.dumps(r['impl'].get(mode))[:300]); print('     model', json.dumps(r['model'])[:300]); print('     spec ', json.dumps(r['spec'])[:300])
