import sys, time, random, collections
sys.path.insert(0,'/tmp/vf_C14')
from harness.props import C14
cases=list(C14.gen('quick', random.Random(1)))
print(len(cases))
cnt=collections.Counter((c['op'],c['ft'],c['level']) for c in cases)
for k,v in sorted(cnt.items()): print(k,v)
C14.setup(); C14.warmup()
by=collections.defaultdict(list)
for c in cases: by[(c['op'],c['ft'],c['level'])].append(c)
for k,cs in sorted(by.items()):
    sub=cs[::max(1,len(cs)//200)]
    t=time.time()
    for c in sub:
        try: C14.run(c)
        except Exception as e: pass
    dt=(time.time()-t)/len(sub)
    print(k, 'ms/case %.2f'%(dt*1000), 'total est s %.1f'%(dt*len(cs)))
