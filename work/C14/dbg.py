"""debug: run the generator, print outcome histogram per category and first mismatches."""
import sys, os, random, json, collections
sys.path.insert(0, os.path.dirname(os.path.dirname(os.path.dirname(os.path.abspath(__file__)))))
from harness import core
from harness.props import C14 as mod
tier = sys.argv[1] if len(sys.argv) > 1 else 'quick'
flt = sys.argv[2] if len(sys.argv) > 2 else None
cases = list(mod.gen(tier, random.Random(20260930)))
if flt:
    cases = [c for c in cases if eval(flt, {}, {'c': c})]
seen, uniq = set(), []
for c in cases:
    k = core.case_key(c)
    if k not in seen:
        seen.add(k); uniq.append(c)
recs, timing = core.evaluate(mod, uniq, mod.MODES, tier)
h = collections.Counter(); shown = collections.Counter()
for r in recs:
    k, mode = core.judge(mod, r, [])
    c = r['case']
    cat = (c['op'], c['ft'], c['level'], 'ood' if c.get('ood') else '', k)
    h[cat] += 1
    if k != 'ok' and shown[cat] < 2:
        shown[cat] += 1
        print(json.dumps(r)[:700])
for k, v in sorted(h.items()): print(k, v)
print(timing)
