import numpy as np, sys, time
from exetera.core import operations as ops
def enc(strs):
    bs=[s.encode() for s in strs]
    idx=np.zeros(len(bs)+1,dtype=np.int64)
    for i,b in enumerate(bs): idx[i+1]=idx[i]+len(b)
    vals=np.frombuffer(b''.join(bs),dtype=np.uint8) if bs else np.zeros(0,dtype=np.uint8)
    return idx, vals
for data in (['c','a','b','a'], [], ['b','a'], ['a','é','ab','']):
    idx,vals=enc(data)
    for flags in [(0,0,0),(1,1,1),(0,1,0)]:
        try:
            t=time.time()
            r=ops.unique_for_indexed_string(idx,vals,*map(bool,flags))
            print(data,flags,r, type(r), getattr(r,'dtype',None), round(time.time()-t,2))
        except Exception as e:
            print(data,flags,'EXC',type(e).__name__,str(e)[:300])
    for t in (['a'],['a',None],[],np.array(['a','b']),['é','']):
        try:
            print(' isin',t,ops.isin_for_indexed_string_field(t,idx,vals))
        except Exception as e:
            print(' isin',t,'EXC',type(e).__name__,str(e)[:300])
