import sys, itertools, collections, signal
sys.path.insert(0, '/tmp/vf_C19')
from harness.props import C19 as M
M.setup()
INV = 1 << 62
class TO(Exception): pass
def alarm(*a): raise TO()
signal.signal(signal.SIGALRM, alarm)
def run(c):
    signal.setitimer(signal.ITIMER_REAL, 2.0)
    try:
        r = M.run(c)
        if isinstance(r, dict): r = 'EXC:' + r['exc']
        return r
    except TO: return 'HANG'
    except Exception as e: return 'EXC:' + type(e).__name__ + ':' + str(e)[:60]
    finally: signal.setitimer(signal.ITIMER_REAL, 0)
stats = collections.Counter(); ex = {}
def note(tag, *a):
    stats[tag] += 1
    ex.setdefault(tag, a)
# ordered_map_valid_stream_old: all valid maps (non-decreasing valid entries in range, INV anywhere)
for nd in range(0, 5):
    data = [10*(k+1) for k in range(nd)]
    for nm in range(0, 5):
        for mp in itertools.product(list(range(nd)) + [None], repeat=nm):
            vs = [x for x in mp if x is not None]
            if any(a > b for a, b in zip(vs, vs[1:])): continue
            m = [INV if x is None else x for x in mp]
            exp = [0 if x is None else data[x] for x in mp]
            for cs in range(1, 6):
                for dst in ('f', 'a'):
                    c = {'op':'kmvold','data':data,'map':m,'cs':cs,'inv':INV,'dst':dst}
                    r = run(c)
                    tag = (dst, 'empty-data' if nd==0 else '', 'empty-map' if nm==0 else '', 'ok' if r == exp else ('bad:' + (r if isinstance(r,str) else 'values')))
                    note(tag, c, r, exp)
for k in sorted(stats, key=str): print(k, stats[k], ex[k])
