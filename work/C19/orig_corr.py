"""Correspondence of the AS-FOUND model (ver=0) with an unrepaired tree: impl must equal the Orig model everywhere;
prints how many in-domain cases then violate the specification (the findings), grouped."""
import os, sys, random, collections, json
sys.path.insert(0, '/tmp/vf_C19')
os.environ['VERIF_C19_VER'] = '0'
from harness import core
from harness.props import C19 as M
cases = [c for c in M.gen('quick', random.Random(1)) if c['op'] == 'oml']
recs, t = core.evaluate(M, cases, ['jit', 'nojit'], 'quick')
bad_model = 0; spec_bad = collections.Counter(); ex = {}
for r in recs:
    for mode, impl in r['impl'].items():
        if not M.equal(r['case'], impl, r['model'], mode):
            bad_model += 1
            if bad_model < 5: print('MODEL-MISMATCH', json.dumps(r)[:600])
        if not M.spec_ok(r['case'], impl, r['spec'], mode):
            c = r['case']
            L = c['L']; R = c['R']
            if not L or not R: tag = 'F-C19b empty key field: StopIteration'
            elif c['lu'] or c['mapk'] == 'a': tag = 'F-C19c streamable + (left_unique or ndarray map): ValueError'
            elif c['cs'] is None: tag = 'F-C19a default chunk size: unmatched tail dropped'
            else: tag = 'F-C19a small chunk: tail dropped / split run loses match'
            spec_bad[tag] += 1; ex.setdefault(tag, (c, impl))
print('cases', len(recs), 'impl!=model(Orig):', bad_model, t)
for k, v in spec_bad.items(): print(v, k, json.dumps(ex[k])[:400])
