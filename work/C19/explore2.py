import sys, itertools, collections, signal
sys.path.insert(0, '/tmp/vf_C19')
from harness.props import C19 as M
M.setup()
INV = 1 << 62

def lj(L, R):
    out = []
    for i, k in enumerate(L):
        ms = [j for j, x in enumerate(R) if x == k]
        out += [(i, j) for j in ms] if ms else [(i, None)]
    return out
def ij(L, R):
    return [(i, j) for i, k in enumerate(L) for j, x in enumerate(R) if x == k]

def nondecr(n, k):
    for m in range(n + 1):
        for c in itertools.combinations_with_replacement(range(k), m):
            yield list(c)
def strict(xs): return all(a < b for a, b in zip(xs, xs[1:]))

class TO(Exception): pass
def alarm(*a): raise TO()
signal.signal(signal.SIGALRM, alarm)
def run(c):
    signal.setitimer(signal.ITIMER_REAL, 2.0)
    try:
        r = M.run(c)
        if isinstance(r, dict): r = 'EXC:' + r['exc']
        return r
    except TO:
        return 'HANG'
    except Exception as e:
        return 'EXC:' + type(e).__name__ + ':' + str(e)[:60]
    finally:
        signal.setitimer(signal.ITIMER_REAL, 0)

stats = collections.Counter(); examples = {}
def note(tag, c, r, exp):
    stats[tag] += 1
    if tag not in examples: examples[tag] = (c, r, exp)

seqs = list(nondecr(4, 3))
which = sys.argv[1]
if which == 'oml':
    for L in seqs:
        for R in seqs:
            for lu, ru in ((0,1),(1,1),(0,0),(1,0)):
                if lu and not strict(L): continue
                if ru and not strict(R): continue
                srcs = [[10*(j+1) for j in range(len(R))]]
                for form, mapk, css in (('a','n',[None]),('a','a',[None]),('as','n',[None]),('f','n',[None]),('fs','n',[None]),('f','f',[None]),('fs','a',[None]),('fs','f',[None,1,2,3])):
                    for cs in css:
                        c = {'op':'oml','L':L,'R':R,'lu':lu,'ru':ru,'srcs':srcs,'form':form,'mapk':mapk,'cs':cs}
                        r = run(c)
                        if ru:
                            exp = [0 if j is None else srcs[0][j] for (i,j) in lj(L,R)]
                        else:
                            exp = 'EXC:ValueError'
                        if isinstance(r, str):
                            got = r.split(':')[0]+':'+r.split(':')[1] if r.startswith('EXC') else r
                        else:
                            got = r[0][0] if r[0] is not None else r[1][0]
                        tag = (form, mapk, 'cs' if cs else '-', lu, ru, 'ok' if got == exp else ('bad:' + (got if isinstance(got,str) else 'values')))
                        note(tag, c, r, exp)
elif which == 'omi':
    for L in seqs:
        for R in seqs:
            for lu, ru in ((0,0),(0,1),(1,0),(1,1)):
                if lu and not strict(L): continue
                if ru and not strict(R): continue
                ls = [[10*(j+1) for j in range(len(L))]]; rs = [[100*(j+1) for j in range(len(R))]]
                n = len(ij(L,R))
                for form in ('a','as','f','fs'):
                    c = {'op':'omi','L':L,'R':R,'lu':lu,'ru':ru,'lsrcs':ls,'rsrcs':rs,'form':form,'n':n}
                    r = run(c)
                    exp = [[ls[0][i] for (i,j) in ij(L,R)], [rs[0][j] for (i,j) in ij(L,R)]]
                    if isinstance(r, str): got = r
                    elif r[0] is not None and len(r[0]) == 2: got = [r[0][0][0], r[0][1][0]]
                    elif r[0] is not None: got = ('single', r[0])
                    else: got = [r[1][0], r[2][0]]
                    tag = (form, lu, ru, 'ok' if got == exp else 'bad:' + (got[:30] if isinstance(got,str) else 'values'))
                    note(tag, c, r, exp)
elif which == 'merge':
    import itertools
    alls = [list(x) for n in range(0,4) for x in itertools.product(range(3), repeat=n)]
    for L in alls:
        for R in alls:
            for form in ('a','f'):
                for wr in (0,1):
                    if form == 'a' and wr: pass
                    rp = [['n',[10*(j+1) for j in range(len(R))]]]
                    lp = [['n',[100*(j+1) for j in range(len(L))]]]
                    if form == 'f':
                        rp.append(['i',[[97+j]*(j%3) for j in range(len(R))]])
                        lp.append(['i',[[65+j]*((j+1)%3) for j in range(len(L))]])
                    for op in ('ml','mr','mi'):
                        c = {'op':op,'L':L,'R':R,'form':form,'wr':wr,'lp':lp,'rp':rp}
                        r = run(c)
                        def mapcol(p, idxs):
                            k, col = p
                            return [(0 if k=='n' else []) if j is None else col[j] for j in idxs]
                        if op == 'ml': exp = [mapcol(p,[j for i,j in lj(L,R)]) for p in rp]
                        elif op == 'mr': exp = [mapcol(p,[j for i,j in lj(R,L)]) for p in lp]
                        else: exp = [[mapcol(p,[i for i,j in ij(L,R)]) for p in lp],[mapcol(p,[j for i,j in ij(L,R)]) for p in rp]]
                        if isinstance(r,str): got = r
                        else: got = r[1] if wr else r[0]
                        tag = (op, form, wr, 'ok' if got == exp else 'bad:'+(got[:40] if isinstance(got,str) else 'values'))
                        note(tag, c, r, exp)
elif which == 'gi':
    alls = [list(x) for n in range(0,4) for x in itertools.product(range(3), repeat=n)]
    for T in alls:
        for F in alls:
            for form in ('a','f'):
                for dest in ('n','a','f'):
                    c = {'op':'gi','T':T,'F':F,'form':form,'dest':dest}
                    r = run(c)
                    note((form,dest,'exc' if isinstance(r,str) else 'ok'), c, r, None)
                    if T == [0,1,0] and form=='a' and dest=='n': print(c, r)
for k in sorted(stats, key=str): print(k, stats[k], '   e.g.', examples[k])
