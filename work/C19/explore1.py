import numpy as np, io, functools, sys
from exetera.core import session, operations as ops, fields as fld
from io import BytesIO

def mk(s, hf, name, arr, dt='int32'):
    f = s.create_numeric(hf, name, dt); f.data.write(np.array(arr, dtype=dt)); return f

def streamed(L, R, vals, cs):
    with session.Session() as s:
        ds = s.open_dataset(BytesIO(), 'w', 'd'); hf = ds.create_dataframe('h')
        l = mk(s, hf, 'l', L); r = mk(s, hf, 'r', R); v = mk(s, hf, 'v', vals)
        m = s.create_numeric(hf, 'm', 'int64'); snk = s.create_numeric(hf, 'snk', 'int32')
        o1, o2 = ops.generate_ordered_map_to_left_right_unique_streamed_old, ops.ordered_map_valid_stream_old
        ops.generate_ordered_map_to_left_right_unique_streamed_old = functools.partial(o1, chunksize=cs)
        ops.ordered_map_valid_stream_old = functools.partial(o2, chunksize=cs)
        try:
            res = s.ordered_merge_left(l, r, right_field_sources=(v,), left_field_sinks=(snk,), left_to_right_map=m, right_unique=True)
            return res, m.data[:].tolist(), snk.data[:].tolist()
        finally:
            ops.generate_ordered_map_to_left_right_unique_streamed_old = o1
            ops.ordered_map_valid_stream_old = o2

for L, R in [([0,2,3,4],[1,2]), ([1,1,1,2],[1,2]), ([1,2,3],[1,2,3]), ([1,2],[1,2,3,4])]:
    vals = [10*(k+1) for k in range(len(R))]
    for cs in (1,2,3,8):
        try:
            print(L, R, cs, streamed(L, R, vals, cs))
        except Exception as e:
            print(L, R, cs, 'EXC', type(e).__name__, e)
