#!/venv/bin/python
"""work/SC18/partial.py <group> [tier] — dev helper: evaluate ONE generator group of harness/props/C18.py
(ragged | rragged | hist | large | hot | main | corpus) against VERIF_REPO and print the outcome histogram and the first
failing cases.  No audit / build / theorem check: this is not a verdict, `./check C18` is."""
import sys, os, json, random, glob, collections
ROOT = os.path.dirname(os.path.dirname(os.path.dirname(os.path.abspath(__file__))))
sys.path.insert(0, ROOT)
from harness import core, hot
from harness.props import C18 as m

group = sys.argv[1]
tier = sys.argv[2] if len(sys.argv) > 2 else 'quick'
big = tier == 'thorough'
info = hot.analyse(core.REPO)
os.environ['VERIF_HOT_SIZES'] = os.environ.get('SC18_HOT') or ','.join(str(x) for x in info['hot'][:4])
os.environ['VERIF_SRC_CHANGED'] = '1' if info['changed_files'] else ''
rng = random.Random(20260930)
if group == 'corpus':
    cases = []
    for p in sorted(glob.glob(os.path.join(ROOT, 'corpus', 'C18', '*.json'))):
        d = json.load(open(p))
        cases.extend(d['cases'] if 'cases' in d else [d['case']])
else:
    g = {'ragged': lambda: m._gen_ragged(big), 'rragged': lambda: m._gen_random_ragged(3000 if big else 300, rng),
         'hist': lambda: m._gen_hist(big, rng), 'large': lambda: m._gen_large(big), 'hot': lambda: m._gen_hot(rng),
         'main': lambda: m._gen_main(tier, rng)}[group]
    cases = list(g())
recs, timing = core.evaluate(m, cases, ['jit'], tier)
kinds = collections.Counter()
feats = collections.Counter()
bad = []
eqm = 0
for r in recs:
    eqm += all(m.equal(r['case'], i, r['model'], mo) for mo, i in r['impl'].items())
    k, mode = core.judge(m, r, [])
    kinds[k] += 1
    if k != 'ok':
        bad.append((k, r))
        for f in m.features(r['case'], r['model']):
            feats[f] += 1
print('group=%s repo=%s cases=%d outcomes=%s impl==model on %d cases; timing=%s hot=%s C18_HIST=%s'
      % (group, core.REPO, len(recs), dict(kinds), eqm, timing, info['hot'][:4], os.environ.get('C18_HIST', 'fix')))
if bad:
    print('features of the failing cases:', dict(feats.most_common(12)))
    for k, r in bad[:2]:
        print(k, json.dumps(r, default=str)[:900])
