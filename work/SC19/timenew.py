import sys, time, random, os
sys.path.insert(0, '/tmp/vf_SC19')
from harness.props import C19
allc = list(C19.gen('quick', random.Random(20260930)))
# the cases of the new generators are the tail after the last old-style random omi case
k = max(i for i, c in enumerate(allc) if c['op'] == 'omi' and not c.get('typed') and not c.get('km') and c['lu'] == 0 and c['ru'] == 0 and len(c['L']) > 7) 
new = allc[k + 1:]
old = allc[:k + 1]
print('old', len(old), 'new', len(new))
C19.setup(); t = time.time(); C19.warmup(); print('warmup %.1fs' % (time.time() - t))
def go(cs):
    t = time.time()
    for c in cs:
        try: C19.run(c)
        except BaseException: pass
    return time.time() - t
print('new cases: %.1fs single process' % go(new))
samp = old[::10]
print('old cases (every 10th): %.1fs x10' % go(samp))
