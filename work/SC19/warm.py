import sys, time
sys.path.insert(0, '/tmp/vf_SC19')
from harness.props import C19
t=time.time(); C19.setup(); print('setup %.1f' % (time.time()-t))
t=time.time(); C19.warmup(); print('warmup %.1f' % (time.time()-t))
