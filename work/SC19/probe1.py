import io, numpy as np, functools
from exetera.core import session, fields as fld, operations as ops
S = session.Session()
ds = S.open_dataset(io.BytesIO(), 'w', 'ds'); df = ds.create_dataframe('h')
cnt=[0]
def nf(xs, dt, h5):
    if h5:
        cnt[0]+=1; f = df.create_numeric('f%d'%cnt[0], dt)
    else:
        f = fld.NumericMemField(S, dt)
    if xs is not None: f.data.write(xs)
    return f
L = np.array([1,1,2,4],dtype='int32'); R = np.array([1,2,3],dtype='int32')
def tarr(xs, dt):
    if dt.startswith('float'):
        return np.asarray(xs, dtype='uint64' if dt=='float64' else 'uint32').view(dt)
    if dt=='bool': return np.asarray(xs,dtype='int64').astype(bool)
    return np.asarray(xs,dtype=dt)
srcs = [('int8',[127,-128,5]),('uint64',[2**64-1,2**63,7]),('float64',[0x7ff8000000000000, 0x8000000000000000, 0x4051A00000000000]),('bool',[1,0,1]),('float32',[0x7fc00000,0x3dcccccd,1]),('int64',[2**53+1,-2**63,2**32+5])]
for h5 in (0,1):
  for form in ('a','as','f','fs','st'):
    for snkwide in (0,1):
        def mk(dt, xs): return tarr(xs,dt) if form in('a','as') else nf(tarr(xs,dt), dt, h5)
        Lx = L if form in ('a','as') else nf(L,'int32',h5); Rx = R if form in ('a','as') else nf(R,'int32',h5)
        ss = tuple(mk(dt,xs) for dt,xs in srcs)
        kd = [dt if not snkwide else {'int8':'int64','bool':'int8'}.get(dt,dt) for dt,_ in srcs]
        sinks=None; mp=None
        if form=='as': sinks = tuple(np.zeros(4,dtype=k) for k in kd)
        if form in('fs','st'): sinks = tuple(nf(None,k,h5) for k in kd)
        if form=='st': mp = nf(None,'int64',h5)
        try:
            ret = S.ordered_merge_left(Lx,Rx,right_field_sources=ss,left_field_sinks=sinks,left_to_right_map=mp,right_unique=True)
        except Exception as e:
            print(h5,form,snkwide,'EXC',type(e).__name__,e); continue
        out = ret if ret is not None else sinks
        def show(x):
            a = x.data[:] if isinstance(x, fld.Field) else x
            return str(a.dtype), (a.view('uint64' if a.dtype==np.float64 else 'uint32').tolist() if a.dtype.kind=='f' else a.tolist())
        print(h5,form,snkwide,[show(x) for x in out])
