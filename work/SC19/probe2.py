import io, numpy as np, time
from exetera.core import session, fields as fld, operations as ops
S = session.Session()
ds = S.open_dataset(io.BytesIO(), 'w', 'ds'); df = ds.create_dataframe('h')
def h5(name, xs, dt):
    f = df.create_numeric(name, dt)
    if xs is not None: f.data.write(np.asarray(xs, dtype=dt))
    return f
L = h5('L',[1,1,2,4],'int32'); R = h5('R',[1,2,3],'int32'); P = h5('P',[10,20,30],'int64')
snk = h5('snk',None,'int64'); mp = h5('mp',None,'int64')
print(type(L._field))
try:
    r = S.ordered_merge_left(L._field, R._field, right_field_sources=(P._field,), left_field_sinks=(snk._field,), left_to_right_map=mp._field, right_unique=True)
    print('streamed groups', r, snk.data[:], mp.data[:])
except Exception as e:
    print('EXC', type(e).__name__, e)
try:
    r = S.ordered_merge_left(L._field, R._field, right_field_sources=(P._field,), right_unique=True)
    print('groups nosink', r)
except Exception as e:
    print('EXC', type(e).__name__, e)
# compile time of dtype specialisations
for dt in ('int8','uint64','float64','bool','float32'):
    t=time.time()
    ops.map_valid(np.zeros(3,dtype=dt), np.array([0,1,2],dtype='int64'), invalid=ops.INVALID_INDEX)
    t1=time.time()-t
    t=time.time()
    a = fld.NumericMemField(S, dt); a.data.write(np.zeros(3,dtype=dt)); m = fld.NumericMemField(S,'int64'); m.data.write(np.array([0,1,2],dtype='int64')); r = fld.NumericMemField(S, dt)
    ops.ordered_map_valid_stream(a, m, r, ops.INVALID_INDEX, chunksize=2)
    print(dt, 'map_valid %.2fs stream %.2fs'%(t1, time.time()-t))
for dt in ('int8','uint64','float64','float32'):
    t=time.time()
    a = np.array([1,2,3],dtype=dt); b=np.array([2,3],dtype=dt); res=np.zeros(3,dtype='int64')
    ops.generate_ordered_map_to_left_right_unique(a,b,res,ops.INVALID_INDEX)
    t1=time.time()-t; t=time.time()
    fa = fld.NumericMemField(S, dt); fa.data.write(a); fb = fld.NumericMemField(S, dt); fb.data.write(b); m = fld.NumericMemField(S,'int64')
    ops.generate_ordered_map_to_left_right_unique_streamed(fa, fb, m, ops.INVALID_INDEX, chunksize=2, rdtype=m.data.dtype)
    print(dt, 'kernel %.2fs streamed gen %.2fs'%(t1, time.time()-t), m.data[:])
