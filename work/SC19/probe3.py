import io, numpy as np, functools
from exetera.core import session, fields as fld, operations as ops
S = session.Session()
ds = S.open_dataset(io.BytesIO(), 'w', 'ds'); df = ds.create_dataframe('h')
cnt=[0]
def ff(xs, n, h5):
    if h5:
        cnt[0]+=1; f = df.create_fixed_string('s%d'%cnt[0], n)
    else:
        f = fld.FixedStringMemField(S, n)
    if xs is not None: f.data.write(np.asarray(xs, dtype='S%d'%n))
    return f
def nf(xs, dt, h5=0):
    if h5:
        cnt[0]+=1; f = df.create_numeric('f%d'%cnt[0], dt)
    else:
        f = fld.NumericMemField(S, dt)
    if xs is not None: f.data.write(np.asarray(xs,dtype=dt))
    return f
Lk=[b'a', b'a', b'a ', b'b\xff']; Rk=[b' ', b'a', b'a ', b'aa']
P=[b'x', b'yy', b'zzz', b'w w']
for h5 in (0,1):
  for form in ('a','as','f','fs','st'):
    try:
        mk = (lambda xs,n: np.asarray(xs,dtype='S%d'%n)) if form in ('a','as') else (lambda xs,n: ff(xs,n,h5))
        L=mk(Lk,2); R=mk(Rk,2); src=(mk(P,3), (np.asarray([1,2,3,4],dtype='int32') if form in ('a','as') else nf([1,2,3,4],'int32',h5)))
        sinks=None; mp=None
        if form=='as': sinks=(np.zeros(4,dtype='S3'), np.zeros(4,dtype='int32'))
        if form in ('fs','st'): sinks=(ff(None,3,h5), nf(None,'int32',h5))
        if form=='st': mp=nf(None,'int64',h5)
        with_cs = functools.partial
        ret = S.ordered_merge_left(L,R,right_field_sources=src,left_field_sinks=sinks,left_to_right_map=mp,right_unique=True)
        out = ret if ret is not None else sinks
        print(h5, form, [ (x.data[:] if isinstance(x, fld.Field) else x).tolist() for x in out])
    except Exception as e:
        print(h5, form, 'EXC', type(e).__name__, str(e)[:300].replace('\n',' '))
# other entry points with fixed-string keys
try:
    print('merge_left', S.merge_left(np.asarray(Lk,dtype='S2'), np.asarray([b'a',b'zz',b'a '],dtype='S2'), right_fields=(np.asarray([1,2,3],dtype='int32'),)))
    print('omi', S.ordered_merge_inner(np.asarray(Lk,dtype='S2'), np.asarray(Rk,dtype='S2'), left_field_sources=(np.arange(4),), right_field_sources=(np.arange(4),)))
    print('gi', S.get_index(np.asarray(Rk,dtype='S2'), np.asarray(Lk,dtype='S2')))
except Exception as e:
    print('EXC', type(e).__name__, str(e)[:300])
