import sys, time
sys.path.insert(0, '/tmp/vf_SC19')
from harness.props import C19
C19.setup()
import collections
# monkeypatch run to time per case kind
orig = C19.run
tot = collections.Counter()
def timed(c):
    t = time.time()
    try: return orig(c)
    finally:
        key = (c['op'], c.get('form'), c.get('mapk'), 'typed' if c.get('typed') else '', 'km' if c.get('km') else '', 'kdt' if c.get('kdt') else '')
        tot[key] += time.time() - t
C19.run = timed
t=time.time(); C19.warmup(); print('warmup %.1f' % (time.time()-t))
for k, v in tot.most_common(14): print('%.1f' % v, k)
