import sys, os, random, json, collections
sys.path.insert(0, '/tmp/vf_C05')
from harness import core
from harness.props import C05 as mod
cases = list(mod.gen('quick', random.Random(20260930)))
seen=set(); u=[]
for c in cases:
    k=core.case_key(c)
    if k not in seen: seen.add(k); u.append(c)
recs, timing = core.evaluate(mod, u, ['jit','nojit'], 'quick')
print(timing)
cnt = collections.Counter(); ex = {}
for r in recs:
    for mode, impl in r['impl'].items():
        em = mod.equal(r['case'], impl, r['model'], mode)
        es = mod.equal(r['case'], impl, r['spec'], mode)
        if em and es: continue
        fs = mod.features(r['case'], r['model'])
        key = ('impl!=model' if not em else 'impl=model!=spec', mode, r['model'] if isinstance(r['model'], str) else 'val', impl if isinstance(impl,str) else 'val', tuple(x for x in fs if x in ('in-regime','out-of-regime','regrow-indices','regrow-values','blank-skipped','cr','indices-full-at-window-end','re-entry-at-saved-offset','full-before-any-newline','call-completes-no-record')))
        cnt[key]+=1
        ex.setdefault(key, r)
for k,v in sorted(cnt.items(), key=lambda x:-x[1]):
    print(v, k)
    r = ex[k]; print('    ', json.dumps(r['case'])[:300]); print('     impl', json.dumps(r['impl'])[:300]); print('     model', json.dumps(r['model'])[:300]); print('     spec', json.dumps(r['spec'])[:200])
