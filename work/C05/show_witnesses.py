"""print, for every corpus witness, what the tree under VERIF_REPO stores (decoded), next to the specification"""
import sys, os, json
sys.path.insert(0, os.path.join(os.path.dirname(os.path.abspath(__file__)), '..', '..'))
from harness import core
from harness.props import C05 as mod
cases = json.load(open(os.path.join(core.ROOT, 'corpus', 'C05', 'findings.json')))['cases']
recs, _ = core.evaluate(mod, cases, ['jit', 'nojit'], 'quick')
def dec(x):
    if isinstance(x, str) or x is None: return x
    return [x[0], [[bytes(v[i:j]).decode('latin-1')[:12] for i, j in zip(ix, ix[1:])] for ix, v in x[1]]]
for r in recs:
    c = r['case']
    print(c['op'], 'crs', c['crs'], repr(mod.text_of(c))[:60])
    print('   impl jit  :', dec(r['impl'].get('jit', '(not run: model predicts out-of-bounds)')))
    print('   impl nojit:', dec(r['impl'].get('nojit')))
    print('   spec      :', dec(r['spec']))
