import os, tempfile, numpy as np
from exetera.core.session import Session
NAMES = ['trash_collections', 'untrashed', 'Trash', 'trash ', 'values', 'index', 'key_names', 'key_values', 'chunksize',
         'fieldtype', 'timestamp', 'a b', 'a.b', '.hidden', 'é€', 'x'*300, 'f', 'df', 'attrs', 'name', '0', ' ', 'a\tb', 'a\nb', "q'\"",
         'valuesx', 'xindex', 'tra', 'sh', 'None', 'trash', 'a/b', '.', '..', '', 'a\\b', '%s', '{}', '*', '\U0001F600']
for dfn in NAMES:
  for fn in ['f', dfn]:
    p = tempfile.mktemp(suffix='.h5')
    try:
        with Session() as s:
            ds = s.open_dataset(p, 'w', 'd')
            df = ds.create_dataframe(dfn)
            df.create_numeric(fn, 'int32').data.write(np.array([1,2,3], dtype='int32'))
            df.create_indexed_string(fn + '2').data.write(['a', 'bc'])
            df.create_categorical(fn + '3', 'int8', {'x': 1, 'y': 2}).data.write(np.array([1, 2], dtype='int8'))
            a = (sorted(ds.keys()), sorted(df.keys()), df[fn].data[:].tolist())
        with Session() as s:
            ds = s.open_dataset(p, 'r', 'd')
            try:
                df = ds[dfn]
                b = (sorted(ds.keys()), sorted(df.keys()), df[fn].data[:].tolist())
            except Exception as e:
                b = (sorted(ds.keys()), repr(e))
        print(repr(dfn)[:20], repr(fn)[:20], 'OK' if a == b else ('DIFF', a, b))
    except Exception as e:
        print(repr(dfn)[:20], repr(fn)[:20], 'EXC', repr(e)[:150])
    finally:
        if os.path.exists(p): os.unlink(p)
