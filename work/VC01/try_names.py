import sys, random, json, time, os
sys.path.insert(0, '/tmp/vf_VC01')
os.environ.setdefault('VERIF_JOBS', '4')
from harness import core
from harness.props import C01
cs = list(C01.gen_names('quick', random.Random(1)))
t = time.time()
recs, _ = core.evaluate(C01, cs, ['jit'], 'quick')
bad = 0
import collections
h = collections.Counter()
for r in recs:
    k, _ = core.judge(C01, r, [])
    h[k] += 1
    if k != 'ok' and bad < 3:
        bad += 1
        print(k, json.dumps(r['case'])[:600])
        print(' impl', json.dumps(r['impl'])[:800])
        print(' model', json.dumps(r['model'])[:800])
print(h, len(cs), 'cases', time.time() - t, 's')
