"""dev: evaluate sampled cases, classify mismatches.  usage: dev.py [tier]"""
import sys, os, random, json, collections
sys.path.insert(0, '/tmp/vf_C04')
from harness import core
from harness.props import C04 as mod
tier = sys.argv[1] if len(sys.argv) > 1 else 'quick'
cases = list(mod.gen(tier, random.Random(20260930)))
if os.environ.get('DEV_NOLONG'):
    cases = [c for c in cases if not mod.mapped_too_long(c)]
print('cases', len(cases))
recs, timing = core.evaluate(mod, cases, mod.MODES, tier)
print(timing)
cat = collections.Counter(); ex = {}
for r in recs:
    k, mode = core.judge(mod, r, [])
    if k == 'ok': cat['ok'] += 1; continue
    c = r['case']
    key = (k, c['op'], c.get('kind') if c.get('kind') == 'S3' else 'num', mod.INV_NAME[c['inv']], json.dumps(r['impl'].get('jit'))[:14] if isinstance(r['impl'].get('jit'), str) else 'val',
           r['model'] if isinstance(r['model'], str) else 'val')
    cat[key] += 1
    if key not in ex or len(json.dumps(c)) < len(json.dumps(ex[key]['case'])): ex[key] = r
for k, v in sorted(cat.items(), key=str): print(v, k)
for k, r in ex.items(): print(k, json.dumps(r))
