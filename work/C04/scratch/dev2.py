import sys, os, random, json, collections
sys.path.insert(0, '/tmp/vf_C04')
from harness import core
from harness.props import C04 as mod
cases = [c for c in mod.gen('quick', random.Random(20260930)) if mod.mapped_too_long(c)]
cases = cases[::int(sys.argv[1])]
print('cases', len(cases))
recs, timing = core.evaluate(mod, cases, mod.MODES, 'quick')
print(timing)
cat = collections.Counter()
for r in recs:
    k, mode = core.judge(mod, r, [])
    cat[(k, str(r['model'])[:20], str(r['impl'])[:60])] += 1
for k, v in cat.items(): print(v, k)
print(json.dumps(min(recs, key=lambda r: len(json.dumps(r['case'])))))
