import numpy as np, signal
from exetera.core import operations as ops, fields, session
S32=ops.INVALID_INDEX_32; S64=ops.INVALID_INDEX_64
s=session.Session()
def num(dt, vals):
    f=fields.NumericMemField(s,dt); f.data.write(np.asarray(vals,dtype=dt)); return f
def run(data, m, inv, cs, dt='int32', mdt='int32'):
    src=num(dt,data); mp=num(mdt,m); dst=fields.NumericMemField(s,dt)
    ops.ordered_map_valid_stream(src,mp,dst,inv,cs)
    return dst.data[:].tolist()
print(run([10,20,30,40,50,60],[0,S32],S32,4))
print(run([10,20,30,40,50,60],[0,-1],-1,4))
print(run([10,20,30,40,50,60],[0,S64],S64,4,mdt='int64'))
def fs(vals,n=3):
    f=fields.FixedStringMemField(s,n); f.data.write(np.asarray(vals,dtype='S%d'%n)); return f
def runfs(data,m,inv,cs):
    src=fs(data); mp=num('int32',m); dst=fields.FixedStringMemField(s,3)
    ops.ordered_map_valid_stream(src,mp,dst,inv,cs)
    return dst.data[:].tolist()
print(runfs([b'a',b'bb',b'ccc'],[0,-1,2],-1,4))
print(runfs([b'a',b'bb',b'ccc'],[-1,-1],-1,4))
print(runfs([b'a',b'bb',b'ccc'],[-1,-1,-1,-1,0],-1,4))
def runix(data,m,inv,cs,vf):
    src=fields.IndexedStringMemField(s); src.data.write(data); mp=num('int32',m); dst=fields.IndexedStringMemField(s)
    signal.alarm(3)
    try:
        ops.ordered_map_valid_indexed_stream(src,mp,dst,inv,cs,vf)
    finally:
        signal.alarm(0)
    return dst.indices[:].tolist(), dst.values[:].tolist(), dst.data[:]
print(runix(['a','bb','ccc'],[0,-1,2],-1,4,4))
try: print(runix(['a','bb','ccc'],[0,S32],S32,4,4))
except Exception as e: print('EXC',type(e),e)
def h(*a): raise TimeoutError
signal.signal(signal.SIGALRM,h)
try: print(runix(['a','bb','ccc','dddd'],[3],-1,1,1))
except BaseException as e: print('EXC',type(e),e)
