"""own variants of the defect class (not the seeded patch), applied to a copy of the repaired tree (/tmp/rp_TC14_var):
each must be caught by the region (e) cases (work/TC14/oracle_run.py compares them with a plain Python oracle)"""
import subprocess
ORIG = open('/tmp/rp_TC14_var/fields.orig').read()
ANCHOR = '''            data = source.data[:]
            if data.dtype.kind in 'iu':
'''
VARIANTS = {
 'V1 tuple with None -> float array': '''            data = source.data[:]
            if isinstance(test_elements, tuple) and any(x is None for x in test_elements):
                test_elements = np.asarray([np.nan if x is None else x for x in test_elements], dtype=float)
            if data.dtype.kind in 'iu':
''',
 'V2 uint64 column viewed as int64 when the tests hold None': '''            data = source.data[:]
            if data.dtype == np.uint64 and not isinstance(test_elements, np.ndarray) and any(x is None for x in test_elements):
                data = data.astype(np.int64)
            if data.dtype.kind in 'iu':
''',
 'V3 tests cast (wrapping) to the column dtype when None present': '''            data = source.data[:]
            if data.dtype.kind in 'iu' and isinstance(test_elements, (list, tuple)) and any(x is None for x in test_elements):
                test_elements = np.array([x for x in test_elements if x is not None], dtype=object).astype(data.dtype)
            if data.dtype.kind in 'iu':
''',
 'V4 object ndarray with None -> float32': '''            data = source.data[:]
            if isinstance(test_elements, np.ndarray) and test_elements.dtype == object and data.dtype.kind in 'iu':
                test_elements = np.array([np.nan if x is None else x for x in test_elements], dtype=np.float32)
            if data.dtype.kind in 'iu':
''',
 'V5 32-bit column compared in float32 when None present': '''            data = source.data[:]
            if data.dtype.itemsize == 4 and data.dtype.kind in 'iu' and len(test_elements) > 0 and None in list(test_elements):
                return np.isin(data.astype(np.float32), np.array([x for x in test_elements if x is not None], dtype=np.float32))
            if data.dtype.kind in 'iu':
''',
}
assert ANCHOR in ORIG
for name, body in VARIANTS.items():
    open('/tmp/rp_TC14_var/exetera/core/fields.py', 'w').write(ORIG.replace(ANCHOR, body, 1))
    out = subprocess.run(['/venv/bin/python', '/tmp/vf_TC14/work/TC14/oracle_run.py', 'quick'], capture_output=True, text=True,
                         env={'PYTHONPATH': '/tmp/rp_TC14_var', 'PATH': '/usr/bin:/bin'}).stdout.splitlines()
    print(name, '::', out[0] if out else 'no output')
    for l in out[1:4]:
        print('    ', l[:230])
open('/tmp/rp_TC14_var/exetera/core/fields.py', 'w').write(ORIG)
