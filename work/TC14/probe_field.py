"""probe of np.isin (as apply_isin calls it) against a plain Python oracle: integer values that are not exact in
binary64, dtype extremes, int64/uint64 mixtures, None entries, every container form."""
import itertools, sys, warnings
warnings.filterwarnings('ignore')
import numpy as np
from exetera.core import session, fields
sess = session.Session()

def _arr(l):
    a = np.array(l)
    if a.dtype.kind == 'f' and all(isinstance(x, int) for x in l):
        a = np.array(l, dtype=object)       # numpy would hand over rounded values: not the caller's integers
    return a

def call(col, dt, tests, kind):
    f = fields.NumericMemField(sess, dt); f.data.write(np.array(col, dtype=dt))
    l = list(tests)
    if kind == 'set': l = list(set(l))
    elif kind == 'tuple': l = tuple(l)
    elif kind == 'array':
        l = np.array(l, dtype=object) if any(x is None for x in l) or not l else _arr(l)
    try:
        return [bool(x) for x in f.isin(l)], getattr(np.asarray(l), 'dtype', None)
    except Exception as e:
        return 'EXC:' + type(e).__name__, None

B = 2 ** 53
pools = {
  'int64': [B + 1, B, B + 2, B + 3, -B - 1, -B, 2 ** 63 - 1, 2 ** 63 - 2, -2 ** 63, -2 ** 63 + 1, 2 ** 62 + 1, 2 ** 62, 0, 5],
  'uint64': [B + 1, B, 2 ** 63, 2 ** 63 + 1, 2 ** 63 - 1, 2 ** 64 - 1, 2 ** 64 - 2, 0, 5],
  'int32': [2 ** 31 - 1, 2 ** 31 - 2, -2 ** 31, 2 ** 24 + 1, 2 ** 24, 0, 5],
  'uint32': [2 ** 32 - 1, 2 ** 32 - 2, 2 ** 24 + 1, 2 ** 24, 0, 5],
}
extra_t = {
  'int64': [2 ** 63, 2 ** 63 + 1, 2 ** 64 - 1, -2 ** 63 - 1, 2 ** 64, float(B)],
  'uint64': [-1, -2, 2 ** 64, -2 ** 63, float(2 ** 63)],
  'int32': [2 ** 31, 2 ** 32, -2 ** 31 - 1, 2 ** 32 + 5],
  'uint32': [-1, 2 ** 32, 2 ** 32 + 5],
}
bad = {}
n = 0
for dt, pool in pools.items():
    tp = pool + extra_t[dt]
    for col in [pool, pool[:2], pool[:1], pool[6:8]]:
        for r in (1, 2, 3):
            for tests in itertools.combinations(tp, r):
                for withnone in (0, 1):
                    for pad in (0, 30):
                        t = list(tests) + ([None] if withnone else []) + [1000 + i for i in range(pad)]
                        for kind in ('list', 'set', 'tuple', 'array'):
                            n += 1
                            mem = [x for x in t if x is not None]
                            exp = [any(v == m for m in mem) for v in col]
                            got, tdt = call(col, dt, t, kind)
                            if got != exp:
                                key = (dt, kind, withnone, pad, str(tdt), got if isinstance(got, str) else 'wrong', 'float-test-value' if any(isinstance(x, float) for x in t) else 'ints-only')
                                bad.setdefault(key, []).append((col, t, got, exp))
print(n, 'calls')
for k, v in sorted(bad.items(), key=str):
    c = v[0]
    print(k, len(v), 'e.g. col', c[0][:4], 'tests', [x for x in c[1] if x is None or x > 2000 or x < 0 or x in (0, 5)][:6])
