"""run the region (e) cases on the tree in PYTHONPATH against a plain Python oracle (no Coq model): dev helper"""
import sys, random, time, collections
sys.path.insert(0, '/tmp/vf_TC14')
from harness.props import C14
C14.setup()
cs = [c for c in C14._gen_coercion(sys.argv[1] if len(sys.argv) > 1 else 'quick', random.Random(1)) if c['op'] == 'isin']
t0 = time.time(); bad = collections.Counter(); ex = {}
for c in cs:
    mem = [t for t in c['tests'] if t is not None]
    exp = [1 if v in mem else 0 for v in c['col']]
    try:
        got = C14.run(c)
    except Exception as e:
        got = 'EXC:' + type(e).__name__
    if got != exp:
        key = (c['ft'], c['tkind'], c.get('tdtype'), None in c['tests'], got if isinstance(got, str) else 'wrong')
        bad[key] += 1; ex.setdefault(key, (c, got, exp))
print(len(cs), 'cases', round(time.time() - t0, 1), 's', sum(bad.values()), 'bad')
for k_, n in sorted(bad.items(), key=str):
    print(k_, n, {a: b for a, b in ex[k_][0].items() if a in ('col', 'tests')}, ex[k_][1], ex[k_][2])
