"""dev probe: run the region generators of harness/props/C14.py against a tree (PYTHONPATH) and compare with a plain
Python oracle (set semantics) - used while the Coq build was running.  usage: PYTHONPATH=<repo> python probe.py [tier]"""
import sys, random, time, collections
sys.path.insert(0, '/tmp/vf_SC14')
from harness.props import C14


def oracle(case):
    ft = case['ft']
    key = (lambda c: tuple(C14._enc(c))) if ft == 'istr' else (lambda c: tuple(c) if isinstance(c, list) else c)
    rows = [key(c) for c in case['col']]
    if case['op'] == 'isin':
        ts = set(key(t) for t in case['tests'] if t is not None)
        return [1 if r in ts else 0 for r in rows]
    u = sorted(set(rows))
    fl = case['flags']
    out = [[list(x) if isinstance(x, tuple) else x for x in u], None, None, None]
    if fl[0]: out[1] = [rows.index(x) for x in u]
    if fl[1]: out[2] = [u.index(r) for r in rows]
    if fl[2]: out[3] = [rows.count(x) for x in u]
    return out


C14.setup()
tier = sys.argv[1] if len(sys.argv) > 1 else 'quick'
bad = collections.Counter()
t0 = time.time()
n = 0
first = {}
for case in C14._gen_regions(tier, random.Random(7)):
    n += 1
    try:
        r = C14.run(case)
    except Exception as e:
        r = 'EXC:' + type(e).__name__ + ':' + str(e)[:80]
    if r != oracle(case):
        k = (case['op'], case['ft'], case['level'], case.get('tkind'))
        bad[k] += 1
        first.setdefault(k, (case if len(str(case)) < 600 else str(case)[:300], r if len(str(r)) < 300 else str(r)[:300]))
print(n, 'cases', round(time.time() - t0, 1), 's; mismatches', sum(bad.values()))
for k, v in bad.most_common(20):
    print(k, v, first[k])
