import sys, os, json, time, random
sys.path.insert(0, '/tmp/vf_C15'); sys.path.insert(0, '/tmp/vf_C15/work/C15/scratch')
os.environ.setdefault('VERIF_JOBS','4')
from harness import core
from harness.props import C15 as m
import dev
cases = list(m.gen('quick', random.Random(1)))
random.Random(2).shuffle(cases)
cases = cases[:400]
n=0
for c in cases:
    r = dev.both(c, show=False)
    if r and not r[0]:
        n+=1
        if n>=4: break
