import sys, os, json, time, random
sys.path.insert(0, '/tmp/vf_C15')
os.environ.setdefault('VERIF_JOBS','4')
from harness import core
from harness.props import C15 as m
m.setup()
def both(case, show=True):
    v = core.run_model(15, [m.to_val(case)])[0]
    e = core.decode_err(v)
    if e: print('MODEL ERR', e); return
    mod, _ = m.from_val(case, v)
    imp = m.run(case)
    same = imp == mod
    if show or not same:
        print('same' if same else 'DIFF', 'held' if m._held_by_property(imp) else 'BROKEN', json.dumps(case['ops'][-3:]))
        if not same:
            for k,(a,b) in enumerate(zip(imp['steps'], mod['steps'])):
                if a != b:
                    print(' step', k, case['ops'][k]); print('  impl ', json.dumps(a)); print('  model', json.dumps(b)); break
            if len(imp['steps']) != len(mod['steps']): print(' lens', len(imp['steps']), len(mod['steps']))
            if imp['final'] != mod['final']: print('  final impl ', json.dumps(imp['final'])); print('  final model', json.dumps(mod['final']))
    return same, imp, mod
if __name__ == '__main__':
    c1 = {'ops': m._mk_frame(0,'d',['a','b']) + [['rename',0,'d',[['a','a_'],['b','a']],'dict']]}
    both(c1)
    both(dict(c1, legacy=[0,0]))
    c2 = {'ops': m.INIT1 + [['ds_setitem',0,'e',0,'d']]}
    both(c2); both(dict(c2, legacy=[0,0]))
    both({'ops': m.INIT2 + [['fmove',0,'d','a',1,'e','q'],['ds_move',1,'e',0,'e'],['rename',0,'e',[['q','a_'],['a_','q']],'dict']]})
