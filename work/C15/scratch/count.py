import sys, random, time, collections
sys.path.insert(0,'/tmp/vf_C15')
from harness.props import C15 as m
t=time.time()
frames = [(0, 'd'), (0, 'd_'), (0, 'e'), (1, 'e'), (1, 'd')]
full = m._alphabet(frames, m.FNAMES, m.DNAMES, [0, 1])
med = m._alphabet([(0, 'd'), (0, 'e')], ['a', 'a_'], ['d', 'e', 'd_'], [0, 1], targets=['a', 'a_', 'b'])
print(len(full), len(med))
n=0
for c in m.gen(sys.argv[1] if len(sys.argv)>1 else 'quick', random.Random(1)):
    n+=1
print(n, time.time()-t)
