import io, time, sys
import numpy as np, h5py
from exetera.core.session import Session
from exetera.core import dataframe as edf, dataset as eds

def mk():
    bio = io.BytesIO()
    s = Session()
    ds = s.open_dataset(bio, 'w', 'ds')
    return bio, s, ds

def show(ds, tag=''):
    print(tag, 'ds.keys', list(ds.keys()), 'file', list(ds._file.keys()))
    for n, df in ds.items():
        print('   df', n, 'name', df.name, 'keys', list(df.keys()), 'h5', list(df._h5group.keys()), df._h5group.name)

t0=time.time()
bio, s, ds = mk()
df = ds.create_dataframe('d1')
a = df.create_numeric('a', 'int32'); a.data.write([1,2,3])
b = df.create_numeric('b', 'int32'); b.data.write([4,5])
print('setup', time.time()-t0)
# F-C15a small witness
try:
    df.rename({'a':'a_', 'b':'a'})
except Exception as e:
    print('EXC', type(e).__name__, e)
show(ds, 'after F-C15a 2col')
print('handles', a.valid, a.name, b.valid, b.name)

bio, s, ds = mk()
df = ds.create_dataframe('d1')
a = df.create_numeric('a', 'int32'); a.data.write([1,2,3])
# identity rename
df.rename('a','a'); show(ds,'identity'); print(a.name)
df.rename('a','b'); show(ds,'a->b'); print(a.name, a.data[:])
try:
    df.rename('zz','b')
except Exception as e: print('EXC', type(e).__name__, e)
c = df.create_numeric('c','int32')
try:
    df.rename('b','c')
except Exception as e: print('EXC', type(e).__name__, e)
show(ds,'after clash')
df.rename({'b':'c','c':'b'}); show(ds,'swap'); print(a.name, c.name)
# setitem existing
try:
    df['b'] = a
except Exception as e: print('EXC', type(e).__name__, e)
df['x'] = a; show(ds,'setitem x')
# delete
del df['x']
try: del df['x']
except Exception as e: print('EXC del', type(e).__name__, e)
try: df.drop('x')
except Exception as e: print('EXC drop', type(e).__name__, e)
h = df['b']
df.drop('b')
print('dropped handle valid', h.valid)
try: print(h.name)
except Exception as e: print('EXC name', type(e).__name__, e)
# move across
d2 = ds.create_dataframe('d2')
h = df['c']
r = edf.move(h, d2, 'c'); show(ds,'moved'); print(h.valid, r.valid, r.name)
try: print(h.name)
except Exception as e: print('EXC name', type(e).__name__, e)
# move within
r2 = edf.move(r, d2, 'q'); print(r2 is r, r.name); show(ds,'move within')
# copy
r3 = edf.copy(r, df, 'q'); show(ds, 'copy'); print(r3.name, r3.data[:])
# dataset level
try:
    ds['d2'] = ds['d1']
except Exception as e: print('EXC', type(e).__name__, e)
show(ds, 'F-C15b')
