import sys, os, json, time, random
sys.path.insert(0, '/tmp/vf_C15')
os.environ.setdefault('VERIF_JOBS','4')
from harness import core
from harness.props import C15 as m
m.setup()
cases = list(m.gen('quick', random.Random(1)))
random.Random(2).shuffle(cases)
cases = cases[:400]
t=time.time(); vals=[m.to_val(c) for c in cases]; raw = core.run_model(15, vals, shards=1); tm=time.time()-t
t=time.time(); imps=[m.run(c) for c in cases]; ti=time.time()-t
print('model %.1f ms/case  impl %.1f ms/case' % (1000*tm/len(cases), 1000*ti/len(cases)))
bad=0
for c,v,i in zip(cases,raw,imps):
    mod,_=m.from_val(c,v)
    if mod!=i: bad+=1
print('mismatch', bad, 'avg json', sum(len(json.dumps(i)) for i in imps)/len(imps))
