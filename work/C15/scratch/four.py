import sys, os, json, random
sys.path.insert(0, '/tmp/vf_C15')
os.environ['VERIF_C15_LEGACY']='0,0'; os.environ['VERIF_C15_FIXC']='0'
from harness import core
from harness.props import C15 as m
cases=list(m.gen('quick', random.Random(20260930)))
raw=core.run_model(15,[m.to_val(c) for c in cases])
n=0
for c,v in zip(cases,raw):
    mod,_=m.from_val(c,v)
    fl=mod['steps'][-1][2] if mod['steps'] else [True]*4
    if fl[0] and not fl[2]:
        n+=1
        if n<=2:
            print(json.dumps(c['init'][:6])); print(json.dumps(c['ops'])); print(json.dumps(mod['start'][0][0])); print(json.dumps(mod['steps'][-1]))
print(n)
