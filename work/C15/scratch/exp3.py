import io, traceback
from exetera.core.session import Session
from exetera.core import dataframe as edf, dataset as eds
s = Session(); ds = s.open_dataset(io.BytesIO(), 'w', 'ds')
d = ds.create_dataframe('d'); e = ds.create_dataframe('e')
for mk in ('create_indexed_string', 'create_numeric', 'create_fixed_string', 'create_categorical', 'create_timestamp'):
    print('=====', mk)
    args = {'create_numeric': ('int32',), 'create_fixed_string': (4,), 'create_categorical': ('int8', {'n':0,'y':1})}.get(mk, ())
    f = getattr(d, mk)('f', *args)
    try: edf.move(f, e, 'g'); print('move across ok', list(d.keys()), list(e.keys()), f.valid)
    except Exception: traceback.print_exc(limit=3)
    for df in (d, e):
        for k in list(df.keys()): del df[k]
    f = getattr(d, mk)('f', *args)
    try: d.delete_field(f); print('delete_field ok')
    except Exception: traceback.print_exc(limit=3)
    for df in (d, e):
        for k in list(df.keys()): del df[k]
