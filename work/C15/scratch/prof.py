import sys, os, json, time, random, cProfile, pstats
sys.path.insert(0, '/tmp/vf_C15')
from harness.props import C15 as m
m.setup()
cases = list(m.gen('quick', random.Random(1)))
random.Random(2).shuffle(cases)
cases = cases[:100]
pr=cProfile.Profile(); pr.enable()
for c in cases: m.run(c)
pr.disable()
pstats.Stats(pr).sort_stats('cumulative').print_stats(28)
