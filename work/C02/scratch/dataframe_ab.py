# Copyright 2020 KCL-BMEIS - King's College London
# Licensed under the Apache License, Version 2.0 (the "License");
# you may not use this file except in compliance with the License.
# You may obtain a copy of the License at
#     http://www.apache.org/licenses/LICENSE-2.0
# Unless required by applicable law or agreed to in writing, software
# distributed under the License is distributed on an "AS IS" BASIS,
# WITHOUT WARRANTIES OR CONDITIONS OF ANY KIND, either express or implied.
# See the License for the specific language governing permissions and
# limitations under the License.
from typing import Mapping, Optional, Sequence, Tuple, Union, List
from collections import OrderedDict
import numpy as np
import pandas as pd

from exetera.core.abstract_types import Dataset, DataFrame, DataFrameGroupBy
from exetera.core import fields as fld
from exetera.core import operations as ops
from exetera.core import validation as val
import h5py


def _csv_cell(value):
    """
    Text of one csv cell, quoted only when needed. A cell is quoted when it contains the
    delimiter, a double quote, a line feed or a carriage return (csv.writer before Python 3.13
    only quotes the characters of its own lineterminator, so with lineterminator='\\n' a cell
    containing a lone '\\r' was written bare and read back as two records). A cell that starts
    with a blank is quoted as well: exetera's csv reader skips the blanks that follow a
    separator or a line break, and only keeps them inside quotes.
    """
    text = value if isinstance(value, str) else str(value)
    if text[:1] == ' ' or any(ch in text for ch in ',"\r\n'):
        return '"' + text.replace('"', '""') + '"'
    return text


def _csv_line(row):
    """
    One csv record terminated by '\\n'. A record made of a single empty cell is written as ""
    so that it is not mistaken for a blank line.
    """
    line = ','.join([_csv_cell(v) for v in row])
    if len(row) == 1 and line == '':
        line = '""'
    return line + '\n'


class HDF5DataFrame(DataFrame):
    """
    DataFrame is the means which which you interact with an ExeTera datastore. These are created
    and loaded through `Dataset.create_dataframe`, and other methods, rather than being constructed
    directly.

    DataFrames closely resemble Pandas DataFrames, but with a number of key differences:
    1. Instead of Series, DataFrames are composed of Field objects
    2. DataFrames can store fields of differing lengths, although all fields must be of the same
    length when performing certain operations such as merges.
    3. ExeTera DataFrames do not (yet) have the ability to create filtered views onto an underlying
    DataFrame, although this functionality will be added in upcoming releases

    For a detailed explanation of DataFrame along with examples of its use, please refer to the
    wiki documentation at
    https://github.com/KCL-BMEIS/ExeTera/wiki/DataFrame-API
    
    :param name: name of the dataframe.
    :param dataset: a dataset object, where this dataframe belongs to.
    :param h5group: the h5group object to store the fields. If the h5group is not empty, acquire data from h5group
        object directly. The h5group structure is h5group<-h5group-dataset structure, the later group has a
        'fieldtype' attribute and only one dataset named 'values'. So that the structure is mapped to
        Dataframe<-Field-Field.data automatically.
    :param dataframe: optional - replicate data from another dictionary of (name:str, field: Field).
    """
    def __init__(self,
                 dataset: Dataset,
                 name: str,
                 h5group: h5py.Group):
        """
        Create a Dataframe object, that contains a dictionary of fields. User should always create dataframe by
        dataset.create_dataframe, otherwise the dataframe is not stored in the dataset.
        """

        self.name = name
        self._columns = OrderedDict()
        self._dataset = dataset
        self._h5group = h5group

        for subg in h5group.keys():
            self._columns[subg] = dataset.session.get(h5group[subg])

    @property
    def columns(self):
        """
        The columns property interface. Columns is a dictionary to store the fields by (field_name, field_object).
        The field_name is field.name without prefix '/' and HDF5 group name.
        """
        return OrderedDict(self._columns)

    @property
    def dataset(self):
        """
        The dataset property interface.
        """
        return self._dataset

    @property
    def h5group(self):
        """
        The h5group property interface, used to handle underlying storage.
        """
        return self._h5group

    def add(self,
            field: fld.Field):
        """
        Add a field to this dataframe as well as the HDF5 Group.

        :param field: field to add to this dataframe, copy the underlying dataset
        """
        dname = field.name if '/' not in field.name else field.name[field.name.index('/', 1)+1:]
        nfield = field.create_like(self, dname)
        if field.indexed:
            nfield.indices.write(field.indices[:])
            nfield.values.write(field.values[:])
        else:
            nfield.data.write(field.data[:])
        self._columns[dname] = nfield

    def drop(self,
             name: str):
        """
        Drop a field from this dataframe as well as the HDF5 Group

        :param name: name of field to be dropped
        """
        del self._columns[name]
        del self._h5group[name]

    def create_group(self,
                     name: str):
        """
        Create a group object in HDF5 file for field to use. Please note, this function is for
        backwards compatibility with older scripts and should not be used in the general case.

        :param name: the name of the group and field
        :return: a hdf5 group object
        """
        self._h5group.create_group(name)
        return self._h5group[name]

    def create_indexed_string(self,
                              name: str,
                              timestamp: Optional[str] = None,
                              chunksize: Optional[int] = None):
        """
        Create a indexed string type field.
        Please see https://github.com/KCL-BMEIS/ExeTera/wiki/Datatypes#indexedstringfield for
        a detailed description of indexed string fields

        :param name: name of field to be created
        :param timestamp: optional - If set, the timestamp that should be given to the new field.
        :param chunksize: optional - If set, the chunksize that should be used to create the new field.
        :return: a newly created indexed string type field
        """
        fld.indexed_string_field_constructor(self._dataset.session, self, name,
                                             timestamp, chunksize)
        field = fld.IndexedStringField(self._dataset.session, self._h5group[name], self,
                                       write_enabled=True)
        self._columns[name] = field
        return self._columns[name]

    def create_fixed_string(self,
                            name: str,
                            length: int,
                            timestamp: Optional[str] = None,
                            chunksize: Optional[int] = None):
        """
        Create a fixed string type field.
        Please see https://github.com/KCL-BMEIS/ExeTera/wiki/Datatypes#fixedstringfield for
        a detailed description of fixed string fields

        :param name: name of field to be created
        :param timestamp: optional - If set, the timestamp that should be given to the new field.
        :param chunksize: optional - If set, the chunksize that should be used to create the new field.
        :return: a newly created fixed string type field
        """
        fld.fixed_string_field_constructor(self._dataset.session, self, name,
                                           length, timestamp, chunksize)
        field = fld.FixedStringField(self._dataset.session, self._h5group[name], self,
                                     write_enabled=True)
        self._columns[name] = field
        return self._columns[name]

    def create_numeric(self,
                       name: str,
                       nformat: int,
                       timestamp: Optional[str] = None,
                       chunksize: Optional[int] = None):
        """
        Create a numeric type field.
        Please see https://github.com/KCL-BMEIS/ExeTera/wiki/Datatypes#numericfield for
        a detailed description of numeric fields

        :param name: name of field to be created
        :param nformat: A numerical type in the set (int8, uint8, int16, uint18, int32, uint32, int64, uint64, float32, float64).
                        It is recommended to avoid uint64 as certain operations in numpy cause conversions to floating point values.
        :param timestamp: optional - If set, the timestamp that should be given to the new field.
        :param chunksize: optional - If set, the chunksize that should be used to create the new field.
        :return: a newly created numeric type field
        """
        fld.numeric_field_constructor(self._dataset.session, self, name,
                                      nformat, timestamp, chunksize)
        field = fld.NumericField(self._dataset.session, self._h5group[name], self,
                                 write_enabled=True)
        self._columns[name] = field
        return self._columns[name]

    def create_categorical(self,
                           name: str,
                           nformat: int,
                           key: dict,
                           timestamp: Optional[str] = None,
                           chunksize: Optional[int] = None):
        """
        Create a categorical type field.
        Please see https://github.com/KCL-BMEIS/ExeTera/wiki/Datatypes#categoricalfield for
        a detailed description of indexed string fields

        :param name: name of field to be created
        :param nformat: A numerical type in the set (int8, uint8, int16, uint18, int32, uint32, int64, uint64, float32, float64). \
                        It is recommended to use 'int8'.
        :param timestamp: optional - If set, the timestamp that should be given to the new field.
        :param chunksize: optional - If set, the chunksize that should be used to create the new field.
        :return: a newly created categorical type field
        """
        fld.categorical_field_constructor(self._dataset.session, self, name, nformat, key,
                                          timestamp, chunksize)
        field = fld.CategoricalField(self._dataset.session, self._h5group[name], self,
                                     write_enabled=True)
        self._columns[name] = field
        return self._columns[name]

    def create_timestamp(self,
                         name: str,
                         timestamp: Optional[str] = None,
                         chunksize: Optional[int] = None):
        """
        Create a timestamp type field.
        Please see https://github.com/KCL-BMEIS/ExeTera/wiki/Datatypes#timestampfield for
        a detailed description of timestamp fields

        :param name: name of field to be created
        :param timestamp: optional - If set, the timestamp that should be given to the new field.
        :param chunksize: optional - If set, the chunksize that should be used to create the new field.
        :return: a newly created timestamp type field
        """
        fld.timestamp_field_constructor(self._dataset.session, self, name,
                                        timestamp, chunksize)
        field = fld.TimestampField(self._dataset.session, self._h5group[name], self,
                                   write_enabled=True)
        self._columns[name] = field
        return self._columns[name]

    def __contains__(self, name):
        """
        check if dataframe contains a field, by the field name

        :param name: the name of the field to check
        :return: A boolean value indicating whether this DataFrame contains a Field with the \
            name in question
        """
        if not isinstance(name, str):
            raise TypeError("The name must be a str object.")
        else:
            return name in self._columns

    def contains_field(self, field):
        """
        check if dataframe contains a field by the field object

        :param field: the filed object to check, return a tuple(bool,str). The str is the name stored in dataframe.
        :return: bool value indicating whether this DataFrame contains a Field
        """
        if not isinstance(field, fld.Field):
            raise TypeError("The field must be a Field object")
        else:
            for v in self._columns.values():
                if id(field) == id(v):
                    return True
            return False

    def __getitem__(self, name):
        """
        Get a field stored by the field name.

        :param name: the name of field to get.
        :return: field to get.
        """
        if not isinstance(name, str):
            raise TypeError("The name must be of type str but is of type '{}'".format(str))
        elif not self.__contains__(name):
            raise ValueError("There is no field named '{}' in this dataframe".format(name))
        else:
            return self._columns[name]

    def get_field(self, name):
        """
        Get a field stored by the field name.

        :param name: the name of field to get.
        :return: field to get.
        """
        return self.__getitem__(name)

    def __setitem__(self, name, field):
        """
        Set a field with given name and given field data

        :param name: the name of field to set.
        :param field: given field to provide data.
        :return: None.
        """
        if not isinstance(name, str):
            raise TypeError("The name must be of type str but is of type '{}'".format(str))
        if not isinstance(field, fld.Field):
            raise TypeError("The field must be a Field object.")
        nfield = field.create_like(self, name)
        if field.indexed:
            nfield.indices.write(field.indices[:])
            nfield.values.write(field.values[:])
        else:
            nfield.data.write(field.data[:])
        self._columns[name] = nfield

    def __delitem__(self, name):
        """
        Remove field from dataframe by field name

        :param field: The field to be delete from this dataframe.
        :return: None.
        """
        if not self.__contains__(name=name):
            raise ValueError("There is no field named '{}' in this dataframe".format(name))
        else:
            del self._h5group[name]
            del self._columns[name]

    def delete_field(self, field):
        """
        Remove field from dataframe by field.

        :param field: The field to delete from this dataframe.
        :return: None.
        """
        if field.dataframe != self:
            raise ValueError("This field is owned by a different dataframe")
        name = field.name
        self.__delitem__(name)

    def keys(self):
        """
        Return all the field names
        """
        return self._columns.keys()

    def values(self):
        """
        Return all the field values
        """
        return self._columns.values()

    def items(self):
        """
        Return all the field names and their corresponding field values
        """
        return self._columns.items()

    def __iter__(self):
        return iter(self._columns)

    def __next__(self):
        return next(self._columns)

    def __len__(self):
        return len(self._columns)

    def rename(self,
               field: Union[str, Mapping[str, str]],
               field_to: Optional[str] = None) -> None:
        """
        Rename provides you with the means to rename fields within a dataframe. You can specify either
        a single field to be renamed or you can provide a dictionary with a set of fields to be
        renamed.

        Example::
        
            # rename a single field
            df.rename('old_field_name', 'new_field_name')
    
            # rename multiple fields
            df.rename({'old_field_name_a': 'new_field_name_a', 'old_field_name_a': 'new_field_name_b'})

        Field renaming can fail if the resulting set of renamed fields would have name clashes. If
        this is the case, none of the rename operations go ahead and the dataframe remains unmodified.
        
        :param field: Either a string or a dictionary of name pairs, each of which is the existing
            field name and the destination field name
        :param field_to: Optional parameter containing a string, if `field` is a string. If 'field'
            is a dictionary, parameter should not be set.
            Field references remain valid after this operation and reflect their renaming.
        :return: None
        """

        if not isinstance(field, (str, dict)):
            raise ValueError("'field' must be of type str or dict but is {}".format(type(field)))

        dict_ = None
        if isinstance(field, dict):
            if field_to is not None:
                raise ValueError("'field_to' can only be set when 'field' is a single column name")
            dict_ = field
        else:
            if field_to is None:
                raise ValueError("'field_to' must be set if 'field' is a column name")
            dict_ = {field: field_to}

        # check that we aren't creating ambiguity with the sequence of renames
        # --------------------------------------------------------------------
        keys = set(self._columns.keys())

        # first, remove the keys being renamed from the keyset
        for k in dict_.keys():
            keys.remove(k)

        # second, add them in one by one to ensure that they don't clash
        clashes = set()
        for v in dict_.values():
            if v in keys:
                clashes.add(v)
            keys.add(v)

        if len(clashes) > 0:
            raise ValueError("The attempted rename cannot be performed as it creates the "
                             "following name clashes: {}".format(clashes))

        def get_unique_name(name, keys):
            while name in keys:
                name += '_'
            return name

        # from here, we know there are no name clashes, but we might still have intermediate
        # clashes, so perform two renames where necessary
        final_renames = dict()
        intermediate_columns = OrderedDict()

        for k, f in self._columns.items():
            if k in dict_:
                uname = get_unique_name(dict_[k], self._columns)
                if uname != k:
                    final_renames[uname] = dict_[k]

                self._h5group.move(k, uname)
                intermediate_columns[uname] = f
            else:
                intermediate_columns[k] = f

        final_columns = OrderedDict()

        for k, f in intermediate_columns.items():
            if k in final_renames:
                name = final_renames[k]
                f = intermediate_columns[k]
                self._h5group.move(k, name)
                final_columns[name] = f
            else:
                final_columns[k] = f

        self._columns = final_columns


    def apply_filter(self, filter_to_apply, ddf=None):
        """
        Apply a filter to all fields in this dataframe, returns \
        filtered dataframe (itself) or a new target (destination) dataframe

        Example::

            df = ... # df contains a field ('foo') with data: ["a", "b", "c", "d", "e", "f", "g"]

            # apply boolean filter to dataframe in place
            bfilter = np.array([0, 1, 0, 1, 0, 1, 1], dtype='bool')
            df.apply_filter(bfilter)
            print(df['foo'].data[:])     # prints ["b", "d", "f", "g"]

            # apply numeric filter to dataframe and store filtered result to designated dataframe
            nfilter = np.array([0, 1, 0, 1, 0, 1, 1, 0])
            df.apply_filter(nfilter, ddf = df2)
            print(df2['foo'].data[0:10]) # prints ["b", "d", "f", "g"]


        :param filter_to_apply: the filter to be applied to the source field, an array of boolean
        :param ddf: optional- the destination data frame
        :returns: a dataframe contains all the fields filterd, self if ddf is not set
        """
        filter_to_apply_ = val.validate_filter(filter_to_apply)

        if ddf is not None:
            if not isinstance(ddf, DataFrame):
                raise TypeError("The destination object must be an instance of DataFrame.")
            for name, field in self._columns.items():
                newfld = field.create_like(ddf, name)
                field.apply_filter(filter_to_apply_, target=newfld)
            return ddf
        else:
            for field in self._columns.values():
                field.apply_filter(filter_to_apply_, in_place=True)
            return self

    def apply_index(self, index_to_apply, ddf=None):
        """
        Apply an index to all fields in this dataframe, returns \
        filtered dataframe (itself) or a new target (destination) dataframe

        Example::

            df = ... # df contains a field ('foo') with data: ["a", "b", "c", "d", "e"]

            # apply index inplace
            index = np.array([4, 3, 2, 1, 0])
            df.apply_index(index)
            print(df['foo'].data[:])     # prints ["e", "d", "c", "b", "a"]

            # apply index and store new result to designated dataframe
            df.apply_index(index, ddf=df2)
            print(df2['foo'].data[0:10]) # prints ["e", "d", "c", "b", "a"]


        :param index_to_apply: the index to be applied to the fields, an ndarray of integers
        :param ddf: optional- the destination data frame
        :returns: a dataframe contains all the fields re-indexed, self if ddf is not set
        """
        if ddf is not None:
            if not isinstance(ddf, DataFrame):
                raise TypeError("The destination object must be an instance of DataFrame.")
            for name, field in self._columns.items():
                newfld = field.create_like(ddf, name)
                field.apply_index(index_to_apply, target=newfld)
            return ddf
        else:
            val.validate_all_field_length_in_df(self) 

            for field in self._columns.values():
                field.apply_index(index_to_apply, in_place=True)
            return self


    def sort_values(self, by: Union[str, List[str]], ddf: DataFrame = None, axis=0, ascending=True, kind='stable'):
        """
        Sort one or multiple fields in dataframe (itself) or a new target (destination) dataframe

        Example::

            df = ... # df contains a field ('idx') with data: ["a", "c", "e", "g", "f", "b", "d"]

            # sort inplace
            df.sort_values(by = 'idx')
            print(df['idx'].data[:])      # prints ["a", "b", "c", "d", "e", "f", "g"]

            # sort and store sorted value in designated dataframe
            df.sort_values(by = 'idx', ddf = df2)
            print(df2['idx'].data[:10])  # prints ["a", "b", "c", "d", "e", "f", "g"]

        
        :param by: Name (str) or list of names (str) to sort by.
        :param ddf: optional - the destination data frame
        :param axis: Axis to be sorted. Currently only supports 0
        :param ascending: Sort ascending vs. descending. Currently only supports ascending=True.
        :param kind: Choice of sorting algorithm. Currently only supports "stable"

        :returns: DataFrame with sorted values or None if ddf=None.
        """
        if axis != 0:
            raise ValueError("Currently sort_values() only supports axis = 0")
        elif ascending != True:
            raise ValueError("Currently sort_values() only supports ascending = True")
        elif kind != 'stable':
            raise ValueError("Currently sort_values() only supports kind='stable'")

        keys = val.validate_selected_keys(by, self._columns.keys())

        readers = tuple(self._columns[k] for k in keys)

        sorted_index = self._dataset.session.dataset_sort_index(
            readers, np.arange(len(readers[0].data), dtype=np.uint32))

        return self.apply_index(sorted_index, ddf)


    def to_csv(self, filepath:str, row_filter:Union[np.ndarray, fld.Field]=None, column_filter:Union[str, List[str]]=None, chunk_row_size:int=1<<15):
        """
        Write object to a comma-separated values (csv) file.

        Example::

            # write to csv file
            df.to_csv(csv_file_name)

            # write to csv file with row_filter. Only select rows when filter value is True.
            df.to_csv(csv_file_name, row_filter=df['foo'])

            # write to csv file with selected columns defined in column_filter.
            df.to_csv(csv_file_name, column_filter=['foo', 'bar'])


        :param filepath: File path.
        :param row_filter: A boolean array / field. Only select rows when filter value is True
        :param column_filter: A sequence of string names for the fields.
        :chunk_row_size: Write rows for every chunk which has maximum chunk_row_size rows. The default is 1<<15.
        """
        val.validate_chunk_size('chunk_row_size', chunk_row_size)

        field_name_to_use = list(self.keys())
        if column_filter is not None:
            field_name_to_use = val.validate_selected_keys(column_filter, self.keys())  

        filter_array = None
        if row_filter is not None:
            filter_array, is_field = val.validate_boolean_row_filter('row_filter', row_filter)
            if is_field and self.contains_field(row_filter) and row_filter.name in field_name_to_use:
                field_name_to_use.remove(row_filter.name)

        fields_to_use = [self._columns[f] for f in field_name_to_use]

        with open(filepath, 'w', encoding='utf-8', newline='') as f:
            # write header names
            f.write(_csv_line(field_name_to_use))

            start_row = 0
            while True:
                chunk_data = []
                for field in fields_to_use:
                    if field.indexed:
                        chunk_data.append(field.data[start_row: start_row+chunk_row_size])
                    else:
                        chunk_data.append(field.data[start_row: start_row+chunk_row_size].tolist())

                for i, row in enumerate(zip(*chunk_data)):
                    if filter_array is None or (i + start_row <len(filter_array) and filter_array[i + start_row] == True):
                        f.write(_csv_line(row))

                if len(chunk_data) == 0 or len(chunk_data[0]) < chunk_row_size:
                    break
                else:
                    start_row += chunk_row_size

    def to_pandas(self, row_filter: List[bool] = None, col_filter: Union[str, List[str]] = None):
        """
        Convert an ExeTera dataframe to Pandas DataFrame.
        :param row_filter: A boolean array indicates which rows to export.
        :param col_filter: String or list of strings indicates which columns to export.
        :returns: A pandas dataframe.

        Example::

            pandas_df = df.to_pandas()
        """
        col_to_convert = list(self._columns.keys()) if col_filter is None else col_filter
        if isinstance(col_to_convert, list) and len(col_to_convert) > 0:  # checking data length if multiple columns
            bench_length = len(self._columns[col_to_convert[0]].data)
            for field in col_to_convert:
                if len(self._columns[field].data) != bench_length:
                    raise ValueError("All fields must be of the same length.")

        col_to_convert = col_to_convert if isinstance(col_to_convert, list) else [col_to_convert]  # case of one column
        temp = {}
        for field in col_to_convert:
            field_arr = np.array(self._columns[field].data[:])
            temp[field] = field_arr if row_filter is None else field_arr[row_filter]
        return pd.DataFrame(temp)

    def drop_duplicates(self, by: Union[str, List[str]],
                       ddf: DataFrame = None,
                       hint_keys_is_sorted=False):
        """
        Removes duplicated values in a field or list of fields, returns a dataframe with distinct values.

        Example::

            df = ... # df contains two fields:
                     # field "foo" with data [1, 0, 0, 1]
                     # field "bar" with data ["b", "b", "a", "a"]

            # return distinct values of a single field
            df.drop_duplicates(by = 'foo', ddf = df2)
            print(df2["foo"].data[:])  # prints [0, 1]

            # return distinct values of multiple fields
            df.drop_duplicates(by = ['foo', 'bar'], ddf = df3)
            # print dataframe (df3) data:
            #
            # "foo", "bar"
            # -------------
            #   0     "a"
            #   0     "b"
            #   1     "a"
            #   1     "b"

        
        :param by: Name (str) or list of names (str) to distinct.
        :param ddf: optional - the destination dataframe
        :returns: DataFrame with distinct values.
        """
        return self.groupby(by, hint_keys_is_sorted).distinct(ddf)

        
    def groupby(self, by: Union[str, List[str]], hint_keys_is_sorted=False):         
        """
        Group DataFrame using a field or a list of field, return a groupby object.

        Example::

            df = ... # df contains two fields:
                     # field "foo" with data [1, 0, 0, 1, 1]
                     # field "bar" with data ["b", "b", "a", "a", "b"]

            # group by on single field, then compute max
            df.groupby(by = 'bar').max(ddf = ddf)
            # print dataframe (ddf) data:
            #
            # "bar", "foo_max"
            # ----------------
            #  "a"      1
            #  "b"      1

            # group by on multiple field, then compute count
            df.groupby(by = ['foo', 'bar']).count(ddf = ddf)
            # print dataframe (ddf) data:
            #
            # "foo", "bar", "count"
            # ----------------------
            #   0     "a"      1
            #   0     "b"      1
            #   1     "a"      1
            #   1     "b"      2


        :param by: Name (str) or list of names (str) to group by.
        :param hint_keys_is_sorted: an optional flag that users could set to skip the sorted check. \
                                    Note that it runs faster and uses less memory when the dataframe is sorted, that is, hint_key_is_sorted=True. 

        :returns: Returns a groupby object that contains information about the groups.
        """         
        # validate groupby keys
        by = val.validate_selected_keys(by, self._columns.keys())

        # check if keys is sorted
        by_fields_data = np.asarray([self._columns[k].data[:] for k in by])

        if not hint_keys_is_sorted:
            is_sorted = ops.check_if_sorted_for_multi_fields(by_fields_data)
        else:
            is_sorted = True

        sorted_index = None
        if not is_sorted:
            # sort first if needed
            readers = tuple(self._columns[k] for k in by)
            sorted_index = self._dataset.session.dataset_sort_index(readers, np.arange(len(readers[0].data), dtype=np.uint32))

            sorted_by_fields_data = np.asarray([self._columns[k].data[:][sorted_index] for k in by])
        else:
            sorted_by_fields_data = np.asarray([self._columns[k].data[:] for k in by])

        spans = ops._get_spans_for_multi_fields(sorted_by_fields_data)
        
        return HDF5DataFrameGroupBy(self._columns, by, sorted_index, spans)

    def describe(self, include=None, exclude=None, output='terminal'):
        """
        Show the basic statistics of the data in each field.

        Example::

            df = ... # df contains three fields:
                     # field "foo" with data [1, 0, 0, 1, 1]
                     # field "bar" with data ["b", "b", "a", "a", "b"]
                     # field "baz" with data [3.5, 6.0, 4.2, 7.2, 5.5]

            # Display statistics results in stdout by default,
            # and return dataframe that contains staticstic results.
            result = df.describe()
            # Statistics results displayed
            #
            # fields    foo          baz
            # ---------------------------------
            # count      5           5
            # mean       0.60        5.28
            # std        0.49        1.31
            # min        0.00        3.50
            # 25%        0.00        3.51
            # 50%        0.00        3.51
            # 75%        0.00        3.52
            # max        1.00        7.20


            # Not display staticstic results
            result = df.describe(output='None')


            # Include multiple fields
            result = df.describe(include=['foo', 'bar', 'baz'])
            # Statistics results displayed
            #
            # fields              foo             bar             baz
            # --------------------------------------------------------
            # count                 5               5               5
            # unique              NaN               2             NaN
            # top                 NaN            b'b'             NaN
            # freq                NaN               3             NaN
            # mean               0.60             NaN            5.28
            # std                0.49             NaN            1.31
            # min                0.00             NaN            3.50
            # 25%                0.00             NaN            3.51
            # 50%                0.00             NaN            3.51
            # 75%                0.00             NaN            3.52
            # max                1.00             NaN            7.20


            # Include multiple data types
            result = df.describe(include = [np.bytes_, np.float32])
            # Statistics results displayed
            #
            # fields              bar             baz
            # -----------------------------------------
            # count                 5               5
            # unique                2             NaN
            # top                b'b'             NaN
            # freq                  3             NaN
            # mean                NaN            5.28
            # std                 NaN            1.31
            # min                 NaN            3.50
            # 25%                 NaN            3.51
            # 50%                 NaN            3.51
            # 75%                 NaN            3.52
            # max                 NaN            7.20


        :param include: The field name or data type or simply 'all' to indicate the fields included in the calculation.
        :param exclude: The field name or data type to exclude in the calculation.
        :param output: Display the result in stdout if set to terminal, otherwise silent.
        :return: A dataframe contains the statistic results.

        """
        # check include and exclude conflicts
        if include is not None and exclude is not None:
            if isinstance(include, str):
                raise ValueError('Please do not use exclude parameter when include is set as a single field.')
            elif isinstance(include, type):
                if isinstance(exclude, type) or (isinstance(exclude, list) and isinstance(exclude[0], type)):
                    raise ValueError(
                        'Please do not use set exclude as a type when include is set as a single data type.')
            elif isinstance(include, list):
                if isinstance(include[0], str) and isinstance(exclude, str):
                    raise ValueError('Please do not use exclude as the same type as the include parameter.')
                elif isinstance(include[0], str) and isinstance(exclude, list) and isinstance(exclude[0], str):
                    raise ValueError('Please do not use exclude as the same type as the include parameter.')
                elif isinstance(include[0], type) and isinstance(exclude, type):
                    raise ValueError('Please do not use exclude as the same type as the include parameter.')
                elif isinstance(include[0], type) and isinstance(exclude, list) and isinstance(exclude[0], type):
                    raise ValueError('Please do not use exclude as the same type as the include parameter.')

        fields_to_calculate = []
        if include is not None:
            if isinstance(include, str):  # a single str
                if include == 'all':
                    fields_to_calculate = list(self.columns.keys())
                elif include in self.columns.keys():
                    fields_to_calculate = [include]
                else:
                    raise ValueError('The field to include in not in the dataframe.')
            elif isinstance(include, type):  # a single type
                for f in self.columns:
                    if not self[f].indexed and np.issubdtype(self[f].data.dtype, include):
                        fields_to_calculate.append(f)
                if len(fields_to_calculate) == 0:
                    raise ValueError('No such type appeared in the dataframe.')
            elif isinstance(include, list) and isinstance(include[0], str):  # a list of str
                for f in include:
                    if f in self.columns.keys():
                        fields_to_calculate.append(f)
                if len(fields_to_calculate) == 0:
                    raise ValueError('The fields to include in not in the dataframe.')

            elif isinstance(include, list) and isinstance(include[0], type):  # a list of type
                for t in include:
                    for f in self.columns:
                        if not self[f].indexed and np.issubdtype(self[f].data.dtype, t):
                            fields_to_calculate.append(f)
                if len(fields_to_calculate) == 0:
                    raise ValueError('No such type appeared in the dataframe.')

            else:
                raise ValueError('The include parameter can only be str, dtype, or list of either.')

        else:  # include is None, numeric & timestamp fields only (no indexed strings) TODO confirm the type
            for f in self.columns:
                if isinstance(self[f], fld.NumericField) or isinstance(self[f], fld.TimestampField):
                    fields_to_calculate.append(f)

        if len(fields_to_calculate) == 0:
            raise ValueError('No fields included to describe.')

        if exclude is not None:
            if isinstance(exclude, str):
                if exclude in fields_to_calculate:  # exclude
                    fields_to_calculate.remove(exclude)  # remove from list
            elif isinstance(exclude, type):  # a type
                for f in fields_to_calculate:
                    if np.issubdtype(self[f].data.dtype, exclude):
                        fields_to_calculate.remove(f)
            elif isinstance(exclude, list) and isinstance(exclude[0], str):  # a list of str
                for f in exclude:
                    fields_to_calculate.remove(f)

            elif isinstance(exclude, list) and isinstance(exclude[0], type):  # a list of type
                for t in exclude:
                    for f in fields_to_calculate:
                        if np.issubdtype(self[f].data.dtype, t):
                            fields_to_calculate.remove(f)  # remove will raise valueerror if dtype not presented

            else:
                raise ValueError('The exclude parameter can only be str, dtype, or list of either.')

        if len(fields_to_calculate) == 0:
            raise ValueError('All fields are excluded, no field left to describe.')
        # if flexible (str) fields
        des_idxstr = False
        for f in fields_to_calculate:
            if isinstance(self[f], fld.CategoricalField) or isinstance(self[f], fld.FixedStringField) or isinstance(
                    self[f], fld.IndexedStringField):
                des_idxstr = True
        # calculation
        result = {'fields': [], 'count': [], 'mean': [], 'std': [], 'min': [], '25%': [], '50%': [], '75%': [],
                  'max': []}

        # count
        if des_idxstr:
            result['unique'], result['top'], result['freq'] = [], [], []

        for f in fields_to_calculate:
            result['fields'].append(f)
            result['count'].append(len(self[f].data))

            if des_idxstr and (isinstance(self[f], fld.NumericField) or isinstance(self[f],
                                                                                   fld.TimestampField)):  # numberic, timestamp
                result['unique'].append('NaN')
                result['top'].append('NaN')
                result['freq'].append('NaN')

                result['mean'].append("{:.2f}".format(np.mean(self[f].data[:])))
                result['std'].append("{:.2f}".format(np.std(self[f].data[:])))
                result['min'].append("{:.2f}".format(np.min(self[f].data[:])))
                result['25%'].append("{:.2f}".format(np.percentile(self[f].data[:], 0.25)))
                result['50%'].append("{:.2f}".format(np.percentile(self[f].data[:], 0.5)))
                result['75%'].append("{:.2f}".format(np.percentile(self[f].data[:], 0.75)))
                result['max'].append("{:.2f}".format(np.max(self[f].data[:])))

            elif des_idxstr and (isinstance(self[f], fld.CategoricalField) or isinstance(self[f],
                                                                                         fld.IndexedStringField) or isinstance(
                self[f], fld.FixedStringField)):  # categorical & indexed string & fixed string
                a, b = np.unique(self[f].data[:], return_counts=True)
                result['unique'].append(len(a))
                result['top'].append(a[np.argmax(b)])
                result['freq'].append(b[np.argmax(b)])

                result['mean'].append('NaN')
                result['std'].append('NaN')
                result['min'].append('NaN')
                result['25%'].append('NaN')
                result['50%'].append('NaN')
                result['75%'].append('NaN')
                result['max'].append('NaN')

            elif not des_idxstr:
                result['mean'].append("{:.2f}".format(np.mean(self[f].data[:])))
                result['std'].append("{:.2f}".format(np.std(self[f].data[:])))
                result['min'].append("{:.2f}".format(np.min(self[f].data[:])))
                result['25%'].append("{:.2f}".format(np.percentile(self[f].data[:], 0.25)))
                result['50%'].append("{:.2f}".format(np.percentile(self[f].data[:], 0.5)))
                result['75%'].append("{:.2f}".format(np.percentile(self[f].data[:], 0.75)))
                result['max'].append("{:.2f}".format(np.max(self[f].data[:])))

        # display
        columns_to_show = ['fields', 'count', 'unique', 'top', 'freq', 'mean', 'std', 'min', '25%', '50%', '75%', 'max']
        # 5 fields each time for display
        if output == 'terminal':
            for col in range(0, len(result['fields']), 5):  # 5 column each time
                for i in columns_to_show:
                    if i in result:
                        print(i, end='\t')
                        for f in result[i][col:col + 5 if col + 5 < len(result[i]) - 1 else len(result[i])]:
                            print('{:>15}'.format(f), end='\t')
                        print('')
                print('\n')
        return result



class HDF5DataFrameGroupBy(DataFrameGroupBy):

    def __init__(self, columns, by, sorted_index, spans):
        self._by = by
        self._columns = columns
        self._all = columns.keys()
        self._sorted_index = sorted_index
        self._spans = spans


    def _write_groupby_keys(self, ddf: DataFrame, write_keys=True):    
        """
        Write groupby keys to ddf only if write_key = True
        """
        if write_keys: 
            by_fields = np.asarray([self._columns[k] for k in self._by]) 
            for field in by_fields:
                newfld = field.create_like(ddf, field.name)
                
                if self._sorted_index is not None:                    
                    field.apply_index(self._sorted_index, target=newfld)                  
                    newfld.apply_index(self._spans[:-1], in_place=True)
                else:
                    field.apply_index(self._spans[:-1], target=newfld)

    
    def count(self, ddf: DataFrame, write_keys=True) -> DataFrame:
        """
        Compute count of group values.

        Example::

            df = ... # df contains a fields ("foo") with data: [1, 0, 0, 1, 1]

            # group by on single field, then compute count
            df.groupby(by = 'foo').count(ddf = ddf)
            # print dataframe (ddf) data:
            #
            # "foo", "count"
            # -------------
            #   0     2
            #   1     3


        :param ddf: the destination data frame
        :param write_keys: optional - write groupby keys to ddf only if write_key=True. Default is True.
        :return: dataframe with count of group values
        """        
        self._write_groupby_keys(ddf, write_keys)

        counts = np.zeros(len(self._spans)-1, dtype='int64')
        ops.apply_spans_count(self._spans, counts)

        ddf.create_numeric(name = 'count', nformat='int64').data.write(counts)

        return ddf

    def distinct(self, ddf: DataFrame, write_keys=True) -> DataFrame:
        """
        Compute distinct values of a field or a list of field

        Example::

            df = ... # df contains two fields:
                     # field "foo" with data [1, 0, 0, 1, 1]
                     # field "bar" with data ["b", "b", "a", "a", "b"]

            # group by on multiple fields, then compute distinct
            df.groupby(by = ['foo', 'bar']).distinct(ddf = ddf)
            # print dataframe (ddf) data:
            #
            # "foo", "bar"
            # -------------
            #   0     "a"
            #   0     "b"
            #   1     "a"
            #   1     "b"


        :param ddf: the destination data frame
        :param write_keys: optional - write groupby keys to ddf only if write_key=True. Default is True.
        :return: dataframe with distinct values of a field or a list of field
        """
        self._write_groupby_keys(ddf, write_keys)
        return ddf
        

    def max(self, target: Union[str, List[str]], ddf: DataFrame, write_keys=True) -> DataFrame:
        """
        Compute max of group values.

        Example::

            df = ... # df contains three fields:
                     # field "foo" with data [1, 0, 0, 1, 1]
                     # field "bar" with data ["b", "b", "a", "a", "b"]
                     # field "baz" with data [3.5, 6.0, 4.2, 7.2, 5.5]

            # group by on a single field, then compute max on multiple target fields
            df.groupby(by = 'bar').max(target = ['foo','baz'], ddf = ddf)
            # print dataframe (ddf) data:
            #
            # "bar", "foo_max", "baz_max"
            # ---------------------------
            #  "a"      1         7.2
            #  "b"      1         6.0


        :param target: Name (str) or list of names (str) to compute max.
        :param ddf: the destination data frame
        :param write_keys: optional - write groupby keys to ddf only if write_key=True. Default is True.
        
        :return: dataframe with max of group values
        """
        targets = val.validate_groupby_target(target, self._by, self._all)

        self._write_groupby_keys(ddf, write_keys)
        
        target_fields = tuple(self._columns[k] for k in targets)
        for field in target_fields:       
            newfld = field.create_like(ddf, field.name + '_max')

            # sort first if needed
            if self._sorted_index is not None:
                field.apply_index(self._sorted_index, target=newfld)

                # apply spans to target fields
                newfld.apply_spans_max(self._spans, in_place=True)
            else:
                field.apply_spans_max(self._spans, target=newfld)

        return ddf


    def min(self, target: Union[str, List[str]], ddf: DataFrame, write_keys=True) -> DataFrame:
        """
        Compute min of group values.

        Example::

            df = ... # df contains two fields:
                     # field "foo" with data [1, 0, 0, 1, 1]
                     # field "bar" with data ["b", "b", "a", "a", "b"]

            # group by on a single field, then compute min on a single target field
            df.groupby(by = 'bar').min(target = 'foo', ddf = ddf)
            # print dataframe (ddf) data:
            #
            # "bar", "foo_min"
            # -------------
            #  "a"      0
            #  "b"      0


        :param target: Name (str) or list of names (str) to compute min.
        :param ddf: the destination data frame
        :param write_keys: optional - write groupby keys to ddf only if write_key=True. Default is True.
        
        :return: dataframe with min of group values
        """
        targets = val.validate_groupby_target(target, self._by, self._all)

        self._write_groupby_keys(ddf, write_keys)

        target_fields = tuple(self._columns[k] for k in targets)
        for field in target_fields:       
            newfld = field.create_like(ddf, field.name + '_min')

            # sort first if needed
            if self._sorted_index is not None:
                field.apply_index(self._sorted_index, target=newfld)

                # apply spans to target fields
                newfld.apply_spans_min(self._spans, in_place=True)
            else:
                field.apply_spans_min(self._spans, target=newfld)

        return ddf


    def first(self, target: Union[str, List[str]], ddf: DataFrame, write_keys=True) -> DataFrame:
        """
        Get first of group values.

        Example::

            df = ... # df contains three fields:
                     # field "foo" with data [1, 0, 0, 1, 1]
                     # field "bar" with data ["b", "b", "a", "a", "b"]
                     # field "baz" with data [3.5, 6.0, 4.2, 7.2, 5.5]

            # group by on multiple fields, then compute first on a single target field
            df.groupby(by = ['foo', 'bar']).first(target = 'baz', ddf = ddf)
            # print dataframe (ddf) data:
            #
            # "foo", "bar", "baz_first"
            # -------------------------
            #   0     "a"       4.2
            #   0     "b"       6.0
            #   1     "a"       7.2
            #   1     "b"       3.5


        :param target: Name (str) or list of names (str) to get first value.
        :param ddf: the destination data frame
        :param write_keys: optional - write groupby keys to ddf only if write_key=True. Default is True.
        
        :return: dataframe with first of group values
        """
        targets = val.validate_groupby_target(target, self._by, self._all)

        self._write_groupby_keys(ddf, write_keys)

        target_fields = tuple(self._columns[k] for k in targets)
        for field in target_fields:       
            newfld = field.create_like(ddf, field.name + '_first')

            # sort first if needed
            if self._sorted_index is not None:
                field.apply_index(self._sorted_index, target=newfld)
                # apply spans to target fields
                newfld.apply_spans_first(self._spans, in_place=True)
            else:
                field.apply_spans_first(self._spans, target=newfld)

        return ddf


    def last(self, target: Union[str, List[str]], ddf: DataFrame, write_keys=True) -> DataFrame:
        """
        Get last of group values.

        Example::

            df = ... # df contains three fields:
                     # field "foo" with data [1, 0, 0, 1, 1]
                     # field "bar" with data ["b", "b", "a", "a", "b"]
                     # field "baz" with data [3.5, 6.0, 4.2, 7.2, 5.5]

            # group by on multiple fields, then compute first on a single target field
            df.groupby(by = ['foo', 'bar']).first(target = 'baz', ddf = ddf)
            # print dataframe (ddf) data:
            #
            # "foo", "bar", "baz_first"
            # -------------------------
            #   0     "a"       4.2
            #   0     "b"       6.0
            #   1     "a"       7.2
            #   1     "b"       5.5


        :param target: Name (str) or list of names (str) to get last value.
        :param ddf: the destination data frame
        :param write_keys: optional - write groupby keys to ddf only if write_key=True. Default is True.
        
        :return: dataframe with last of group values
        """
        targets = val.validate_groupby_target(target, self._by, self._all)

        self._write_groupby_keys(ddf, write_keys)

        target_fields = tuple(self._columns[k] for k in targets)
        for field in target_fields:       
            newfld = field.create_like(ddf, field.name + '_last')

            # sort first if needed
            if self._sorted_index is not None:
                field.apply_index(self._sorted_index, target=newfld)
                # apply spans to target fields
                newfld.apply_spans_last(self._spans, in_place=True)
            else:
                field.apply_spans_last(self._spans, target=newfld)
            
        return ddf



def copy(field: fld.Field, ddf: DataFrame, name: str):
    """
    Copy a field to another dataframe as well as underlying dataset.

    Example::

        # Copy a field ('foobar') of dataframe (df1) to another dataframe (df2) with new field name ('foo')
        dataframe.copy(df1['foobar'], df2, 'foo')

    :param field: The source field to copy.
    :param ddf: The destination dataframe to copy to.
    :param name: The name of field under destination dataframe.
    """
    dfield = field.create_like(ddf, name)
    if field.indexed:
        dfield.indices.write(field.indices[:])
        dfield.values.write(field.values[:])
    else:
        dfield.data.write(field.data[:])
    ddf.columns[name] = dfield
    return ddf[name]


def move(field: fld.Field, ddf: DataFrame, name: str):
    """
    Move a field to another dataframe as well as underlying dataset.

    Example::

        # Move a field ('foobar') of dataframe (df1) to another dataframe (df2) with new field name ('foo')
        dataframe.move(df1['foobar'], df2, 'foo')

    :param src_df: The source dataframe where the field is located.
    :param field: The field to move.
    :param ddf: The destination dataframe to move to.
    :param name: The name of field under destination dataframe.
    """
    if field.dataframe == ddf:
        ddf.rename(field.name, name)
        return field
    else:
        copy(field, ddf, name)
        field.dataframe.drop(field.name)
        field._valid_reference = False
        return ddf[name]


def merge(left: DataFrame,
          right: DataFrame,
          dest: DataFrame,
          left_on: Union[Tuple[Union[str, fld.Field]], str, fld.Field],
          right_on: Union[Tuple[Union[str, fld.Field]], str, fld.Field],
          left_fields: Optional[Sequence[str]] = None,
          right_fields: Optional[Sequence[str]] = None,
          left_suffix: str = '_l',
          right_suffix: str = '_r',
          how='left',
          hint_left_keys_ordered: Optional[bool] = None,
          hint_left_keys_unique: Optional[bool] = None,
          hint_right_keys_ordered: Optional[bool] = None,
          hint_right_keys_unique: Optional[bool] = None,
          chunk_size=1 << 20):
    """
    Merge 'left' and 'right' DataFrames into a destination dataset. The merge is a database-style
    join operation, in any of the following modes ("left", "right", "inner", "outer"). This
    method closely follows the Pandas 'merge' functionality.

    The join is performed using the fields specified by 'left_on' and 'right_on'; these can either
    be strings or fields; if they strings then they refer to fields that must exist in the
    corresponding dataframe.

    You can optionally set 'left_fields' and / or 'right_fields' if you want to have only a subset
    of fields joined from the left and right dataframes. If you don't want any fields to be joined
    from a given dataframe, you can pass an empty list.

    Fields are written to the destination dataframe. If the field names clash, they will get
    appended with the strings specified in 'left_suffix' and 'right_suffix' respectively.

    :param left: The left dataframe
    :param right: The right dataframe
    :param dest: The destination dataframe
    :param left_on: The field corresponding to the left key used to perform the join. This is either the
        the name of the field, or a field object. If it is a field object, it can be from another
        dataframe but it must be the same length as the fields being joined. This can also be a tuple
        of such values when performing joins on compound keys
    :param right_on: The field corresponding to the right key used to perform the join. This is either
        the name of the field, or a field object. If it is a field object, it can be from another
        dataframe but it must be the same length as the fields being joined. This can also be a tuple
        of such values when performing joins on compound keys
    :param left_fields: Optional parameter listing which fields are to be joined from the left table. If
        this is not set, all fields from the left table are joined
    :param right_fields: Optional parameter listing which fields are to be joined from the right table.
        If this is not set, all fields from the right table are joined
    :param left_suffix: A string to be appended to fields from the left table if they clash with fields from the 
        right table.
    :param right_suffix: A string to be appended to fields from the right table if they clash with fields from the 
        left table.
    :param how: Optional parameter specifying the merge mode. It must be one of ('left', 'right',
        'inner', 'outer' or 'cross). If not set, the 'left' join is performed.

    """

    if not isinstance(left, DataFrame):
        raise ValueError("'left' must be a DataFrame but is of type '{}'".format(type(left)))

    if not isinstance(right, DataFrame):
        raise ValueError("'right' must be a DataFrame but is of type '{}'".format(type(right)))

    supported_modes = ('left', 'right', 'inner', 'outer', 'cross')
    if how not in supported_modes:
        raise ValueError("'how' must be one of {} but is {}".format(supported_modes, how))

    # check that left_on and right_on are mutually compatible
    val.validate_key_field_consistency('left_on', 'right_on', left_on, right_on)

    # check that fields are of the correct field type
    left_on_fields = val.validate_and_get_key_fields('left_on', left, left_on)
    right_on_fields = val.validate_and_get_key_fields('right_on', right, right_on)

    # check the consistency of field lengths
    left_lens = val.validate_key_lengths('left_on', left, left_on_fields)
    right_lens = val.validate_key_lengths('right_on', right, right_on_fields)

    # check consistency of fields with key lengths
    val.validate_field_lengths('left', left_lens, left, left_fields)
    val.validate_field_lengths('right', right_lens, right, right_fields)

    left_len = list(left_lens)[0]
    right_len = list(right_lens)[0]

    # TODO: tweak this to be consistent with the streaming code
    if left_len < (2 << 30) and right_len < (2 << 30):
        index_dtype = np.int32
    else:
        index_dtype = np.int64

    left_fields_to_map = left.keys() if left_fields is None else left_fields
    right_fields_to_map = right.keys() if right_fields is None else right_fields

    # TODO: check for ordering for multi-key-fields (is_ordered doesn't support it yet)
    if hint_left_keys_ordered is None:
        left_keys_ordered = False
    else:
        left_keys_ordered = hint_left_keys_ordered

    if hint_right_keys_ordered is None:
        right_keys_ordered = False
    else:
        right_keys_ordered = hint_right_keys_ordered

    if hint_left_keys_unique is None:
        left_keys_unique = False
    else:
        left_keys_unique = hint_left_keys_unique

    if hint_right_keys_unique is None:
        right_keys_unique = False
    else:
        right_keys_unique = hint_right_keys_unique

    ordered = False
    if left_keys_ordered and right_keys_ordered and \
        len(left_on_fields) == 1 and len(right_on_fields) == 1 and \
        how in ('left', 'right', 'inner'):
        ordered = True

    if ordered:
        _ordered_merge(left, right, dest,
                       left_on_fields, right_on_fields,
                       left_fields_to_map, right_fields_to_map,
                       left_len, right_len,
                       index_dtype,
                       left_suffix, right_suffix,
                       how,
                       left_keys_unique,
                       right_keys_unique,
                       chunk_size)
    else:
        _unordered_merge(left, right, dest,
                         left_on_fields, right_on_fields,
                         left_fields_to_map, right_fields_to_map,
                         left_len, right_len,
                         index_dtype,
                         left_suffix, right_suffix,
                         how)


def _unordered_merge(left: DataFrame,
                     right: DataFrame,
                     dest: DataFrame,
                     left_on_fields,
                     right_on_fields,
                     left_fields_to_map,
                     right_fields_to_map,
                     left_len,
                     right_len,
                     index_dtype,
                     left_suffix,
                     right_suffix,
                     how):
    left_df_dict = {}
    right_df_dict = {}
    left_on_keys = []
    right_on_keys = []
    if isinstance(left_on_fields, tuple):
        for i_f, f in enumerate(left_on_fields):
            key = 'l_k_{}'.format(i_f)
            left_df_dict[key] = f.data[:]
            left_on_keys.append(key)
        l_key = tuple(left_on_keys)
        for i_f, f in enumerate(right_on_fields):
            key = 'r_k_{}'.format(i_f)
            right_df_dict[key] = f.data[:]
            right_on_keys.append(key)
        r_key = tuple(right_on_keys)
    else:
        l_key = 'l_k'
        left_df_dict[l_key] = left_on_fields.data[:]
        r_key = 'r_k'
        right_df_dict[r_key] = right_on_fields.data[:]

    left_df_dict['l_i'] = np.arange(left_len, dtype=index_dtype)
    right_df_dict['r_i'] = np.arange(right_len, dtype=index_dtype)
    # create the merging dataframes, using only the fields involved in the merge
    l_df = pd.DataFrame(left_df_dict)
    r_df = pd.DataFrame(right_df_dict)

    # TODO: more efficient unordered merges using dict and numba
    df = pd.merge(left=l_df, right=r_df, left_on=l_key, right_on=r_key, how=how)

    l_to_d_map = df['l_i'].to_numpy(dtype=np.int32)
    l_to_d_filt = np.logical_not(df['l_i'].isnull()).to_numpy()
    r_to_d_map = df['r_i'].to_numpy(dtype=np.int32)
    r_to_d_filt = np.logical_not(df['r_i'].isnull()).to_numpy()

    # perform the mapping

    for f in left_fields_to_map:
        dest_f = f
        if f in right_fields_to_map:
            dest_f += left_suffix
        l = left[f]
        d = l.create_like(dest, dest_f)
        if l.indexed:
            i, v = ops.safe_map_indexed_values(l.indices[:], l.values[:], l_to_d_map, l_to_d_filt)
            d.indices.write(i)
            d.values.write(v)
        else:
            v = ops.safe_map_values(l.data[:], l_to_d_map, l_to_d_filt)
            d.data.write(v)

    if not np.all(l_to_d_filt):
        d = dest.create_numeric('valid'+left_suffix, 'bool')
        d.data.write(l_to_d_filt)

    for f in right_fields_to_map:
        dest_f = f
        if f in left_fields_to_map:
            dest_f += right_suffix
        r = right[f]
        d = r.create_like(dest, dest_f)
        if r.indexed:
            i, v = ops.safe_map_indexed_values(r.indices[:], r.values[:], r_to_d_map, r_to_d_filt)
            d.indices.write(i)
            d.values.write(v)
        else:
            v = ops.safe_map_values(r.data[:], r_to_d_map, r_to_d_filt)
            d.data.write(v)

    if not np.all(r_to_d_filt):
        d = dest.create_numeric('valid'+right_suffix, 'bool')
        d.data.write(r_to_d_filt)


def _ordered_merge(left: DataFrame,
                   right: DataFrame,
                   dest: DataFrame,
                   left_on_fields,
                   right_on_fields,
                   left_fields_to_map,
                   right_fields_to_map,
                   left_len,
                   right_len,
                   index_dtype,
                   left_suffix,
                   right_suffix,
                   how,
                   left_keys_unique,
                   right_keys_unique,
                   chunk_size=1 << 20):
    supported = ('left', 'right', 'inner')
    if how not in supported:
        raise ValueError("Unsupported mode for 'how'; must be one of "
                         "{} but is {}".format(supported, how))

    if left_keys_unique or right_keys_unique:
        npdtype = ops.get_map_datatype_based_on_lengths(left_len, right_len)
        strdtype = 'int32' if npdtype == np.int32 else np.int64
        invalid = ops.INVALID_INDEX_32 if npdtype == np.int32 else ops.INVALID_INDEX_64
    else:
        npdtype = np.int64
        strdtype = 'int64'
        invalid = ops.INVALID_INDEX_64

    # chunksize = 1 << 25
    if how in ('left', 'right'):
        if how == 'left':
            a_on, b_on = left_on_fields, right_on_fields
            a_unique, b_unique = left_keys_unique, right_keys_unique
        else:
            a_on, b_on = right_on_fields, left_on_fields
            a_unique, b_unique = right_keys_unique, left_keys_unique

        if a_unique:
            if b_unique:
                b_result = dest.create_numeric('_b_map', strdtype)
                ops.generate_ordered_map_to_left_both_unique_streamed(
                    a_on[0], b_on[0], b_result, invalid, rdtype=npdtype)
            else:
                a_result = dest.create_numeric('_a_map', strdtype)
                b_result = dest.create_numeric('_b_map', strdtype)
                ops.generate_ordered_map_to_left_left_unique_streamed(
                    a_on[0], b_on[0], a_result, b_result, invalid, rdtype=npdtype)
        else:
            if b_unique:
                b_result = dest.create_numeric('_b_map', strdtype)
                ops.generate_ordered_map_to_left_right_unique_streamed(
                    a_on[0], b_on[0], b_result, invalid, rdtype=npdtype)
            else:
                a_result = dest.create_numeric('_a_map', strdtype)
                b_result = dest.create_numeric('_b_map', strdtype)
                ops.generate_ordered_map_to_left_streamed(
                    a_on[0], b_on[0], a_result, b_result, invalid, rdtype=npdtype)

        if how == 'right':
            if "_a_map" in dest:
                dest.rename('_a_map', '_right_map')
            dest.rename('_b_map', '_left_map')
        else:
            if "_a_map" in dest:
                dest.rename('_a_map', '_left_map')
            dest.rename('_b_map', '_right_map')
    else:  # how = inner
        left_result = dest.create_numeric('_left_map', strdtype)
        right_result = dest.create_numeric('_right_map', strdtype)
        if left_keys_unique:
            if right_keys_unique:
                ops.generate_ordered_map_to_inner_both_unique_streamed(
                    left_on_fields[0], right_on_fields[0], left_result, right_result,
                    invalid, rdtype=npdtype)
            else:
                ops.generate_ordered_map_to_inner_left_unique_streamed(
                    left_on_fields[0], right_on_fields[0], left_result, right_result,
                    invalid, rdtype=npdtype)
        else:
            if right_keys_unique:
                ops.generate_ordered_map_to_inner_right_unique_streamed(
                    left_on_fields[0], right_on_fields[0], left_result, right_result,
                    invalid, rdtype=npdtype)
            else:
                ops.generate_ordered_map_to_inner_streamed(
                    left_on_fields[0], right_on_fields[0], left_result, right_result,
                    rdtype=npdtype)

    # perform the mappings
    # ====================

    left_map = dest['_left_map'] if '_left_map' in dest else None
    right_map = dest['_right_map']

    if left_map is None:
        for k in left_fields_to_map:
            dest_k = k
            if k in dest:
                dest_k += left_suffix
            dest_f = left[k].create_like(dest, dest_k)
            ops.chunked_copy(left[k], dest_f, chunk_size)
    else:
        for k in left_fields_to_map:
            dest_k = k
            if k in dest:
                dest_k += left_suffix
            dest_f = left[k].create_like(dest, dest_k)
            if left[k].indexed:
                ops.ordered_map_valid_indexed_stream(left[k], left_map, dest_f)
            else:
                ops.ordered_map_valid_stream(left[k], left_map, dest_f)

    for k in right_fields_to_map:
        dest_k = k
        if k in dest:
            dest_k += right_suffix
        dest_f = right[k].create_like(dest, dest_k)
        if right[k].indexed:
            ops.ordered_map_valid_indexed_stream(right[k], right_map, dest_f, invalid)
        else:
            ops.ordered_map_valid_stream(right[k], right_map, dest_f, invalid)