# F-C02f with the PRODUCTION chunk sizes (no monkeypatching): every key twice on the left, three times on the right
import io, sys, time
import numpy as np
from exetera.core import session, dataframe
nk = int(sys.argv[1]) if len(sys.argv) > 1 else 360000
s = session.Session(); ds = s.open_dataset(io.BytesIO(), 'w', 'ds')
l = ds.create_dataframe('l'); r = ds.create_dataframe('r')
lk = np.repeat(np.arange(nk, dtype='int32'), 2); rk = np.repeat(np.arange(nk, dtype='int32'), 3)
l.create_numeric('k', 'int32').data.write(lk); l.create_numeric('lv', 'int32').data.write(np.arange(len(lk), dtype='int32'))
r.create_numeric('k', 'int32').data.write(rk); r.create_numeric('rv', 'int32').data.write(np.arange(len(rk), dtype='int32'))
d = ds.create_dataframe('d')
t0 = time.time()
try:
    dataframe.merge(l, r, d, 'k', 'k', how='inner', hint_left_keys_ordered=True, hint_right_keys_ordered=True)
    rv = d['rv'].data[:]; lv = d['lv'].data[:]; kr = d['k_r'].data[:]
    print('rows', len(rv), 'time %.1f' % (time.time() - t0))
    # expected: for key q: left rows 2q,2q+1; right rows 3q..3q+2
    q = np.repeat(np.arange(nk), 6)
    exp_rv = 3 * q + np.tile(np.array([0, 1, 2, 0, 1, 2]), nk)
    bad = np.nonzero(rv != exp_rv)[0]
    print('wrong right-payload rows:', len(bad), 'first', bad[:5], 'got', rv[bad[:5]], 'expected', exp_rv[bad[:5]])
    print('key column k_r wrong rows:', int(np.count_nonzero(kr != q)))
except Exception as e:
    print('EXC', type(e).__name__, str(e)[:200], 'time %.1f' % (time.time() - t0))
