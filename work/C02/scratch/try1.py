import io, sys, functools, itertools, traceback
import numpy as np
from exetera.core import session, dataframe, operations as ops

s = session.Session()
ds = s.open_dataset(io.BytesIO(), 'w', 'ds')
n = [0]
def mk(keys, prefix):
    n[0] += 1
    df = ds.create_dataframe('df%d' % n[0])
    df.create_numeric('k', 'int32').data.write(np.asarray(keys, dtype='int32'))
    df.create_numeric(prefix + 'v', 'int32').data.write(np.asarray([10 * (i + 1) for i in range(len(keys))], dtype='int32'))
    df.create_indexed_string(prefix+'s').data.write(['x' * (i + 1) for i in range(len(keys))])
    return df

def merge(L, R, how, hints, cs=None):
    l = mk(L, 'l'); r = mk(R, 'r')
    n[0] += 1
    d = ds.create_dataframe('df%d' % n[0])
    saved = {}
    if cs is not None:
        for name in dir(ops):
            if (name.startswith('generate_ordered_map_to_') and name.endswith('_streamed')):
                saved[name] = getattr(ops, name)
                setattr(ops, name, functools.partial(saved[name], chunksize=cs))
        for name in ('ordered_map_valid_stream', 'ordered_map_valid_indexed_stream'):
            saved[name] = getattr(ops, name)
            setattr(ops, name, functools.partial(saved[name], chunksize=cs))
    try:
        dataframe.merge(l, r, d, 'k', 'k', how=how,
                        hint_left_keys_ordered=hints[0], hint_left_keys_unique=hints[1],
                        hint_right_keys_ordered=hints[2], hint_right_keys_unique=hints[3])
        out = {}
        for k in d.keys():
            f = d[k]
            out[k] = list(f.data[:]) if not f.indexed else f.data[:]
        return out
    except Exception as e:
        return 'EXC %s: %s' % (type(e).__name__, str(e)[:100])
    finally:
        for k, v in saved.items():
            setattr(ops, k, v)

if __name__ == '__main__':
    L = [1, 2, 2, 4]; R = [0, 2, 3, 4, 4]
    for how in ('left', 'right', 'inner', 'outer'):
        print(how, 'nohint', merge(L, R, how, (None,)*4))
        print(how, 'ordered', merge(L, R, how, (True, False, True, False)))
        print(how, 'ordered cs2', merge(L, R, how, (True, False, True, False), cs=3))
    L = [1, 2, 4]; R = [0, 2, 3, 4]
    for how in ('left', 'right', 'inner'):
        for lu, ru in itertools.product((False, True), repeat=2):
            print(how, lu, ru, merge(L, R, how, (True, lu, True, ru)))
