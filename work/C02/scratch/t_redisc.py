import sys, json, random, collections, os
sys.path.insert(0, '/tmp/vf_C02')
from harness import core
import importlib
mod = importlib.import_module('harness.props.C02')
W = json.load(open('/tmp/vf_C02/work/C02/scratch/witnesses.json'))
ids = sorted(W)
cases = [W[k] for k in ids]
gen = list(mod.gen('quick', random.Random(1)))[::int(sys.argv[1])]
recs, timing = core.evaluate(mod, cases + gen, ['nojit', 'jit'], 'quick')
known = [{'id': 'F-C02f', 'status': 'known'}, {'id': 'F-C02g', 'status': 'known'}]
out = {'repo': os.environ.get('VERIF_REPO'), 'variant': os.environ.get('C02_VARIANT', 'fixed'), 'witnesses': {}}
for k, r in zip(ids, recs):
    j, mode = core.judge(mod, r, known)
    out['witnesses'][k] = {'judge': j, 'impl': {m: (v if isinstance(v, str) else 'result') for m, v in r['impl'].items()},
                           'model': r['model'] if isinstance(r['model'], str) else 'result'}
cnt = collections.Counter(); byclass = collections.Counter()
for r in recs[len(ids):]:
    j, mode = core.judge(mod, r, known)
    cnt[j] += 1
    if j == 'violation':
        c = r['case']
        byclass[(c['how'], tuple(bool(h) for h in c['hints']), str(r['impl'].get('nojit'))[:14] if isinstance(r['impl'].get('nojit'), str) else 'wrong-data')] += 1
out['sample'] = {'cases': len(recs) - len(ids), 'outcomes': dict(cnt), 'violations_by_class': {str(k): v for k, v in sorted(byclass.items())}}
print(json.dumps(out, indent=1))
