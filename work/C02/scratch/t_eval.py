import sys, json, random, time, collections
sys.path.insert(0, '/tmp/vf_C02')
from harness import core
import importlib
mod = importlib.import_module('harness.props.C02')
tier = sys.argv[1] if len(sys.argv) > 1 else 'quick'
limit = int(sys.argv[2]) if len(sys.argv) > 2 else 200
stride = int(sys.argv[3]) if len(sys.argv) > 3 else 1
cases = list(mod.gen(tier, random.Random(1)))
print('generated', len(cases))
cases = cases[::stride][:limit]
t0 = time.time()
recs, timing = core.evaluate(mod, cases, ['nojit', 'jit'] if len(sys.argv) <= 4 else sys.argv[4].split(','), tier)
print('timing', timing, 'n', len(recs))
known = [{'id': 'F-C02f', 'status': 'known'}, {'id': 'F-C02g', 'status': 'known'}]
cnt = collections.Counter()
neq_model = 0
shown = 0
for r in recs:
    k, mode = core.judge(mod, r, known)
    cnt[k] += 1
    if any(not mod.equal(r['case'], v, r['model'], m) for m, v in r['impl'].items()): neq_model += 1
    if k in ('violation', 'corr') and shown < 6:
        shown += 1
        print(k, mode, json.dumps(r)[:3000])
print(cnt)
print('impl != model:', neq_model)
