import itertools, sys, collections
from try1 import merge
def seqs(n, k):
    for ln in range(n + 1):
        for c in itertools.combinations_with_replacement(range(k), ln):
            yield list(c)
def uniq(x): return len(set(x)) == len(x)
def rows(out):
    names = sorted(k for k in out if not k.startswith('_') and not k.startswith('valid'))
    cols = [out[k] for k in names]
    lens = {len(c) for c in cols}
    assert len(lens) == 1, out
    return names, sorted(zip(*[[ (x if isinstance(x,str) else int(x)) for x in c] for c in cols]))
N = int(sys.argv[1]); K = int(sys.argv[2]); CS = [int(x) for x in sys.argv[3].split(',')]
bad = collections.Counter(); first = {}
tot = 0
for L in seqs(N, K):
    for R in seqs(N, K):
        for how in ('left', 'right', 'inner'):
            ref = merge(L, R, how, (None,) * 4)
            refrows = rows(ref) if not isinstance(ref, str) else ref
            for lu, ru in itertools.product((False, True), repeat=2):
                if (lu and not uniq(L)) or (ru and not uniq(R)): continue
                for cs in CS:
                    tot += 1
                    o = merge(L, R, how, (True, lu, True, ru), cs=cs)
                    r = rows(o) if not isinstance(o, str) else o
                    if r != refrows:
                        key = (how, lu, ru, (o[:40] if isinstance(o, str) else 'DIFF'))
                        bad[key] += 1
                        first.setdefault(key, (L, R, cs, o, ref))
print(tot)
for k, v in sorted(bad.items()): print(k, v, first[k][:3]); print('   got', first[k][3]); print('   ref', first[k][4])
