import sys, json, random, time, cProfile, pstats
sys.path.insert(0, '/tmp/vf_C09')
from harness.props import C09 as m
m.setup(); m.warmup()
cases = [c for c in m.gen('quick', random.Random(1)) if c['op']=='df'][:300]
def go():
    for c in cases:
        try: m.run(c)
        except Exception: pass
cProfile.run('go()', '/tmp/prof_c09')
pstats.Stats('/tmp/prof_c09').sort_stats('cumtime').print_stats(35)
