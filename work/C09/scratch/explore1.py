import io, numpy as np, traceback
from exetera.core.session import Session
from exetera.core import fields as fld

def mk(s, ds, name, n_rows_data):
    df = ds.create_dataframe(name)
    return df

with Session() as s:
    bio = io.BytesIO()
    ds = s.open_dataset(bio, 'w', 'ds')
    df = ds.create_dataframe('df')
    df.create_indexed_string('s').data.write(['a', '', 'héé', 'bb', ''])
    df.create_fixed_string('f', 3).data.write(np.array([b'x', b'yy', b'zzz', b'', b'x'], dtype='S3'))
    df.create_numeric('n', 'int32').data.write(np.array([5, 3, 5, 1, 3], dtype=np.int32))
    df.create_numeric('fl', 'float32').data.write(np.array([5.5, 3, 5, 1, 3], dtype=np.float32))
    df.create_categorical('c', 'int8', {'a': 1, 'b': 2}).data.write(np.array([1, 2, 2, 1, 1], dtype=np.int8))
    df.create_timestamp('t').data.write(np.array([1., 2., 3., 4., 5.]))
    df.create_numeric('b', 'bool').data.write(np.array([1,0,1,0,1], dtype=bool))
    df2 = ds.create_dataframe('df2')
    r = df.apply_filter(np.array([1, 0, 2, 0, -1], dtype=np.int8), ddf=df2)
    for k in df2.keys():
        f = df2[k]
        print(k, type(f).__name__, f.data[:], getattr(f.data,'dtype',None))
        if f.indexed: print(f.indices[:], f.values[:])
    df3 = ds.create_dataframe('df3')
    for keys in (['n'], ['n','fl'], ['f'], ['c','n'], ['s'], ['b','n']):
        try:
            df3 = ds.create_dataframe('df3_'+'_'.join(keys))
            df.sort_values(keys, ddf=df3)
            print(keys, [ (k, list(df3[k].data[:])) for k in df3.keys()])
        except Exception as e:
            print(keys, 'EXC', type(e).__name__, e)
    # in place
    df.apply_index(np.array([4,4,0], dtype=np.int64))
    for k in df.keys():
        f = df[k]
        print(k, type(f).__name__, f.data[:], getattr(f.data,'dtype',None))
        if f.indexed: print(f.indices[:], f.values[:])
    df.apply_filter(np.array([False, False, False]))
    for k in df.keys():
        f = df[k]
        print(k, type(f).__name__, f.data[:], getattr(f.data,'dtype',None))
        if f.indexed: print(f.indices[:], f.values[:])
