import io, numpy as np, traceback, os
from exetera.core.session import Session
from exetera.core import fields as fld, operations as ops

def show(df):
    out = {}
    for k in df.keys():
        f = df[k]
        if f.indexed: out[k] = (list(f.indices[:]), bytes(f.values[:]))
        else: out[k] = (list(f.data[:]), str(f.data.dtype))
    return out
def T(label, fn):
    try:
        print(label, '->', fn())
    except Exception as e:
        print(label, 'EXC', type(e).__name__, str(e)[:150])

print('USE_NUMBA', os.environ.get('USE_NUMBA'))
ind = np.array([0,1,1,4], dtype=np.int64); vals = np.frombuffer(b'abcd', dtype=np.uint8)
T('neg idx kernel', lambda: ops.apply_indices_to_index_values(np.array([-1, 0, -3], dtype=np.int64), ind, vals))
T('neg idx kernel i32', lambda: ops.apply_indices_to_index_values(np.array([-1, 0], dtype=np.int32), ind, vals))
T('filter short', lambda: ops.apply_filter_to_index_values(np.array([True, False]), ind, vals))
T('filter long F', lambda: ops.apply_filter_to_index_values(np.array([True, False, True, False]), ind, vals))
T('empty indices', lambda: ops.apply_filter_to_index_values(np.array([], dtype=bool), np.array([], dtype=np.int64), np.array([], dtype=np.uint8)))
T('empty indices idx', lambda: ops.apply_indices_to_index_values(np.array([], dtype=np.int64), np.array([], dtype=np.int64), np.array([], dtype=np.uint8)))

with Session() as s:
    bio = io.BytesIO()
    ds = s.open_dataset(bio, 'w', 'ds')
    def mkdf(name):
        df = ds.create_dataframe(name)
        df.create_indexed_string('s').data.write(['a', '', 'héé', 'bb'])
        df.create_numeric('n', 'int32').data.write(np.array([5, 3, 5, 1], dtype=np.int32))
        df.create_categorical('c', 'int8', {'a': 1, 'b': 2}).data.write(np.array([1, 2, 2, 1], dtype=np.int8))
        return df
    df = mkdf('df')
    df2 = ds.create_dataframe('df2')
    T('filter ddf 1', lambda: show(df.apply_filter(np.array([1,0,1,1]), ddf=df2)))
    T('filter ddf 2 (again)', lambda: show(df.apply_filter(np.array([1,0,0,1]), ddf=df2)))
    T('filter ddf=self', lambda: show(df.apply_filter(np.array([1,0,0,1]), ddf=df)))
    T('src after', lambda: show(df))
    T('sess filter nd numeric', lambda: s.apply_filter(np.array([0,1,0,1]), np.array([10,20,30,40])))
    T('sess filter nd bool', lambda: s.apply_filter(np.array([0,1,0,1], dtype=bool), np.array([10,20,30,40])))
    T('sess filter field numeric', lambda: s.apply_filter(np.array([0,1,0,1]), df['n']))
    T('sess filter field s', lambda: s.apply_filter(np.array([0,1,0,1]), df['s']))
    T('sess filter fieldfilter', lambda: s.apply_filter(df['n'], df['s']))
    T('sess index field s', lambda: s.apply_index(np.array([3,3,0]), df['s']))
    T('sess index nd', lambda: s.apply_index(np.array([3,3,0]), np.array([10,20,30,40])))
    d3 = ds.create_dataframe('d3')
    T('sort_on other', lambda: (s.sort_on(df, d3, ('n','c'), verbose=False), show(d3)))
    T('sort_on other h5', lambda: (s.sort_on(df._h5group, ds.create_dataframe('d4')._h5group, ('n','c'), verbose=False), show(ds['d4'])))
    T('sort_on same', lambda: (s.sort_on(df._h5group, df._h5group, ('n','c'), verbose=False), show(df)))
    T('neg idx df', lambda: show(df.apply_index(np.array([-1, 0]), ddf=ds.create_dataframe('d5'))))
    T('oob idx df', lambda: show(df.apply_index(np.array([4, 0]), ddf=ds.create_dataframe('d6'))))
    # field-level
    f = df['s']
    T('field new', lambda: (lambda r: (type(r).__name__, list(r.indices[:]), bytes(r.values[:]), r.values[:].dtype))(f.apply_filter(np.array([1,1,0,1]))))
    m = fld.IndexedStringMemField(s); m.data.write(['zz','y'])
    T('field target mem', lambda: (lambda r: (r is m, list(r.indices[:]), bytes(r.values[:])))(f.apply_index(np.array([2,0]), target=m)))
    T('field target mem again', lambda: (lambda r: (r is m, list(r.indices[:]), bytes(r.values[:])))(f.apply_index(np.array([1,1]), target=m)))
    n = df['n']
    mn = fld.NumericMemField(s, 'int64'); mn.data.write(np.array([7,7,7], dtype=np.int64))
    T('num target mem i64', lambda: (lambda r: (r is mn, r.data[:], r.data[:].dtype, r.data.dtype))(n.apply_filter(np.array([1,1,0,1]), target=mn)))
    T('num target mem i64 b', lambda: (lambda r: (r is mn, r.data[:], r.data[:].dtype, r.data.dtype))(n.apply_filter(np.array([1,0,0,1]), target=mn)))
    T('num new', lambda: (lambda r: (type(r).__name__, r.data[:], r.data[:].dtype))(n.apply_filter(np.array([1,0,0,1]))))
    T('num inplace empty', lambda: (lambda r: (type(r).__name__, r.data[:], r.data[:].dtype))(n.apply_filter(np.array([0,0,0,0]), in_place=True)))
    T('num inplace empty again', lambda: (lambda r: (type(r).__name__, r.data[:], r.data[:].dtype))(n.apply_filter(np.array([],dtype=bool), in_place=True)))
    T('s inplace empty', lambda: (lambda r: (type(r).__name__, list(r.indices[:]), r.values[:], r.data[:], len(r)))(f.apply_filter(np.array([0,0,0,0]), in_place=True)))
    T('s inplace empty again', lambda: (lambda r: (type(r).__name__, list(r.indices[:]), r.values[:], r.data[:], len(r)))(f.apply_filter(np.array([],dtype=bool), in_place=True)))
