import sys, json, random, time, collections
sys.path.insert(0, '/tmp/vf_C09')
from harness import core
from harness.props import C09 as m
m.setup(); m.warmup()
cases = list(m.gen('quick', random.Random(1)))
print(len(cases), collections.Counter(c['op'] for c in cases))
t=time.time()
vals=[m.to_val(c) for c in cases]
raw = core.run_model(9, vals)
print('model', time.time()-t)
bad=0; t=time.time(); per=collections.Counter(); tper=collections.Counter()
for c, v in zip(cases, raw):
    e = core.decode_err(v)
    if e: print('TOPERR', e, c); break
    mm, ss = m.from_val(c, v)
    t1=time.time()
    try:
        r = m.run(c)
    except Exception as ex:
        r = 'EXC:'+type(ex).__name__
        msg = str(ex)[:100]
    tper[c['op']]+=time.time()-t1
    ok_m = core.results_equal(r, mm, 'nojit'); ok_s = core.results_equal(r, ss, 'nojit')
    if not (ok_m and ok_s):
        bad+=1; per[(c['op'], ok_m, ok_s)]+=1
        if per[(c['op'], ok_m, ok_s)]<=3:
            print('MISMATCH', ok_m, ok_s, json.dumps(c)[:600]); print('  impl ', json.dumps(r)[:500]); print('  model', json.dumps(mm)[:500]); print('  spec ', json.dumps(ss)[:500])
print('bad', bad, per, 'time', time.time()-t, dict(tper))
