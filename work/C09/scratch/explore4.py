import io, numpy as np
from exetera.core.session import Session
with Session() as s:
    ds = s.open_dataset(io.BytesIO(), 'w', 'ds')
    df = ds.create_dataframe('df')
    f = df.create_indexed_string('s'); f.data.write(['aa', 'b', 'ccc'])
    df.apply_filter(np.array([1, 0, 0], dtype=bool))
    print(df['s'].data[:], list(df['s'].indices[:]), bytes(df['s'].values[:]))
    df['s'].data.write(['dd'])
    print(df['s'].data[:], list(df['s'].indices[:]), bytes(df['s'].values[:]))
