import io, numpy as np, traceback, os
from exetera.core.session import Session
from exetera.core import fields as fld, operations as ops
def show(df):
    out = {}
    for k in df.keys():
        f = df[k]
        if f.indexed: out[k] = (list(f.indices[:]), bytes(f.values[:]))
        else: out[k] = (list(f.data[:]), str(f.data.dtype))
    return out
def T(label, fn):
    try:
        print(label, '->', fn())
    except Exception as e:
        print(label, 'EXC', type(e).__name__, str(e)[:150])
with Session() as s:
    bio = io.BytesIO()
    ds = s.open_dataset(bio, 'w', 'ds')
    df = ds.create_dataframe('e')
    df.create_indexed_string('s')
    df.create_numeric('n', 'int32')
    T('empty show', lambda: show(df))
    T('empty sort_on same', lambda: (s.sort_on(df, df, ('n',), verbose=False), show(df)))
    T('empty sort_values inplace', lambda: (df.sort_values('n'), show(df)))
    T('empty sort_values again', lambda: (df.sort_values('n'), show(df)))
    T('empty sort_on same 2', lambda: (s.sort_on(df, df, ('n',), verbose=False), show(df)))
    T('empty filter ddf', lambda: show(df.apply_filter(np.array([], dtype=bool), ddf=ds.create_dataframe('e2'))))
    T('empty index ddf', lambda: show(df.apply_index(np.array([], dtype=np.int64), ddf=ds.create_dataframe('e3'))))
    T('empty index float', lambda: show(df.apply_index(np.array([]), ddf=ds.create_dataframe('e4'))))
    df = ds.create_dataframe('f')
    df.create_indexed_string('s').data.write(['b','a'])
    df.create_numeric('n', 'int32').data.write(np.array([2,1],dtype=np.int32))
    T('index nd with field idx', lambda: s.apply_index(df['n'], np.array([10,20,30])))
    T('filter nd with field flt', lambda: s.apply_filter(df['n'], np.array([10,20])))
    T('index to all empty', lambda: show(df.apply_index(np.array([], dtype=np.int64), ddf=ds.create_dataframe('f2'))))
    T('sort by s,n', lambda: show(df.sort_values(['s','n'], ddf=ds.create_dataframe('f3'))))
    # uint64 filter
    T('u64 filter', lambda: show(df.apply_filter(np.array([1,0], dtype=np.uint64), ddf=ds.create_dataframe('f4'))))
    T('float filter', lambda: show(df.apply_filter(np.array([0.5,-0.0], dtype=np.float32), ddf=ds.create_dataframe('f5'))))
    T('S filter', lambda: show(df.apply_filter(np.array([b'a',b''], dtype='S1'), ddf=ds.create_dataframe('f6'))))
    T('field filter', lambda: show(df.apply_filter(df['n'], ddf=ds.create_dataframe('f7'))))
    # filter short/long at df-level in place
    T('short in place', lambda: show(df.apply_filter(np.array([1], dtype=bool))))
    T('after', lambda: show(df))
