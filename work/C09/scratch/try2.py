import sys, json, random, time, collections
sys.path.insert(0, '/tmp/vf_C09')
from harness import core
from harness.props import C09 as m
m.setup(); m.warmup()
ops = set(sys.argv[1].split(','))
cases = [c for c in m.gen('quick', random.Random(1)) if c['op'] in ops]
print(len(cases))
vals=[m.to_val(c) for c in cases]
raw = core.run_model(9, vals)
bad=0; t=time.time(); per=collections.Counter()
for c, v in zip(cases, raw):
    e = core.decode_err(v)
    if e: print('TOPERR', e, c); break
    mm, ss = m.from_val(c, v)
    try:
        r = m.run(c)
    except Exception as ex:
        r = 'EXC:'+type(ex).__name__+':'+str(ex)[:80]
    if isinstance(r,str) and r.startswith('EXC:'): r2=':'.join(r.split(':')[:2])
    else: r2=r
    ok_m = m.equal(c, r2, mm, "nojit"); ok_s = m.equal(c, r2, ss, "nojit")
    if not (ok_m and ok_s):
        bad+=1; key=(c['op'], ok_m, ok_s, r if isinstance(r,str) else '', mm if isinstance(mm,str) else ''); per[key]+=1
        if per[key]<=2:
            print('MISMATCH', ok_m, ok_s, json.dumps(c)[:500]); print('  impl ', json.dumps(r)[:400]); print('  model', json.dumps(mm)[:400]); print('  spec ', json.dumps(ss)[:400])
print('bad', bad, 'time', time.time()-t)
for k,v in per.items(): print(v, k)
