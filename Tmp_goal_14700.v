Show. 
